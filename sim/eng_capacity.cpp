// eng_capacity.cpp - `capacity` engine (C04, writer half of C09): the out-of-space fault (F5) is enumerated.
// One plan = one write-call sequence; execute() re-runs it for every capacity 0..S+3 into an exact-size,
// pattern-filled heap destination and compares with the independent reference encoder (pieces).
#include "session.hpp"
#include "model.hpp"
#include "engines.hpp"
#include "gen_common.hpp"

namespace {

static Op mk(int code, int64_t a = 0, const Bytes &b = Bytes(), int64_t c = 0) { Op o; o.code = code; o.a = a; o.b = b; o.c = c; return o; }

// reference: the pieces one write call contributes (independent of src/binson_writer.c)
struct RefOp { std::vector<Bytes> pieces; bool null_error = false; bool refused = false; size_t phantom = 0; };   // phantom: bytes that are counted but can never be stored (a length Binson cannot encode)
static Bytes cstr(Bytes b) { size_t z = 0; while (z < b.size() && b[z]) z++; b.resize(z); return b; }

static RefOp ref_of(const Op &o) {
    RefOp r;
    auto one = [&](uint8_t b) { r.pieces.push_back(Bytes{b}); };
    auto blob = [&](uint8_t base, const Bytes &pay) { Bytes d; enc_len(d, base, pay.size()); r.pieces.push_back(d); if (!pay.empty()) r.pieces.push_back(pay); };
    switch (o.code) {
        case W_OBJ_BEGIN: one(0x40); break; case W_OBJ_END: one(0x41); break;
        case W_ARR_BEGIN: one(0x42); break; case W_ARR_END: one(0x43); break;
        case W_BOOL: one(o.a ? 0x44 : 0x45); break;
        case W_INT: { Bytes d; enc_int(d, o.a); r.pieces.push_back(d); break; }
        case W_DOUBLE: { Bytes d; d.push_back(0x46); uint64_t v = (uint64_t)o.a; for (int i = 0; i < 8; i++) { d.push_back((uint8_t)(v & 0xff)); v >>= 8; } r.pieces.push_back(d); break; }
        case W_STRING: case W_NAME: blob(0x14, cstr(o.b)); break;
        // o.a > 0: the caller claims a length of o.a * 2^31 + |b| bytes, beyond what a Binson length field can hold: the FORMAT
        // class of the writer. Nothing is stored; the counter advances by the 9-byte header the library would need plus the length
        case W_STRING_LEN: if (o.a > 0) r.phantom = 9 + o.b.size() + (size_t)o.a * 0x80000000ULL; else blob(0x14, o.b); break;
        case W_BYTES: if (o.a > 0) r.phantom = 9 + o.b.size() + (size_t)o.a * 0x80000000ULL; else blob(0x18, o.b); break;
        case W_RAW: r.pieces.push_back(o.b); break;      // possibly empty: a zero-length piece fits whenever nothing failed before
        case W_STRING_NULL: case W_RAW_NULL: r.null_error = true; break;
        case W_TO_WRITER:        // see WSession: only variant 1 stands on a container ({"b":1}); 4 = NULL parser (API error class); others append nothing and fail without latching
            if (o.a % 5 == 1) r.pieces.push_back(aux_container((int)(o.a / 5)));
            else if (o.a % 5 == 4) r.null_error = true;
            else r.refused = true;
            break;
        default: break;
    }
    return r;
}

static void tree_to_ops(const Node &n, std::vector<Op> &ops, Rng &r, bool top) {
    switch (n.t) {
        case V_OBJ:
            ops.push_back(mk(W_OBJ_BEGIN));
            for (auto &k : n.kids) {
                bool nul = false; for (auto x : k.name) if (!x) nul = true;
                ops.push_back(mk(nul ? W_STRING_LEN : (r.chance(1, 2) ? W_NAME : W_STRING_LEN), 0, k.name));
                tree_to_ops(k, ops, r, false);
            }
            ops.push_back(mk(W_OBJ_END)); break;
        case V_ARR:
            ops.push_back(mk(W_ARR_BEGIN));
            for (auto &k : n.kids) tree_to_ops(k, ops, r, false);
            ops.push_back(mk(W_ARR_END)); break;
        case V_BOOL: ops.push_back(mk(W_BOOL, n.b)); break;
        case V_INT: ops.push_back(mk(W_INT, n.i)); break;
        case V_DBL: ops.push_back(mk(W_DOUBLE, (int64_t)n.d)); break;
        case V_STR: { bool nul = false; for (auto x : n.s) if (!x) nul = true; ops.push_back(mk(nul || r.chance(1, 2) ? W_STRING_LEN : W_STRING, 0, n.s)); break; }
        case V_BYTES: ops.push_back(mk(W_BYTES, 0, n.s)); break;
    }
    (void)top;
}

static Bytes payload(Rng &r, int tier) {
    static const size_t edges[] = {0, 0, 1, 2, 126, 127, 128, 129, 255, 256};
    unsigned c = (unsigned)r.below(100);
    size_t len;
    if (c < 50) len = r.below(12);
    else if (c < 85) len = edges[r.below(10)];
    else if (c < 95) len = 100 + r.below(200);
    else if (tier || r.chance(1, 3)) {
        static const size_t X[] = {65535, 65536, 65537, 131070, 131071, 131072, 131073, 196606, 196607, 196608};   // block counts of a 16-bit chunked copy
        unsigned h = (unsigned)r.below(6);
        len = h < 2 ? 32760 + r.below(16) : h < 4 ? 65530 + r.below(12) : h == 4 ? X[r.below(10)] : 65530 + r.below(4500);
    } else len = 300 + r.below(400);
    Bytes b(len);
    uint8_t seed = (uint8_t)r.below(256);
    for (size_t i = 0; i < len; i++) b[i] = (uint8_t)(1 + (seed + i * 7) % 255);        // no accidental 0x00: the NUL-terminated entry points must see the full length
    if (len && r.chance(1, 4)) b[r.below(len)] = 0;
    return b;
}

Plan capacity_generate(uint64_t base, const std::string &prop, uint64_t index, int tier) {
    Plan p; p.engine = "capacity"; p.prop = prop; p.index = index;
    p.seed = run_seed(base, "capacity", prop, index);
    Rng r(p.seed);
    Rng rd = r.fork("document"), ro = r.fork("operations");
    if (ro.chance(1, 20)) {
        // nesting beyond what binson_writer_verify's own parser can follow (depth 10), and up to the format's limits
        static const int N[] = {9, 10, 11, 12, 13, 40, 120};
        int depth = N[ro.below(7)]; bool arrays = ro.chance(1, 3);
        for (int i = 0; i < depth; i++) { if (i && !arrays) p.ops.push_back(mk(W_NAME, 0, Bytes{'n'})); p.ops.push_back(mk(arrays ? W_ARR_BEGIN : W_OBJ_BEGIN)); }
        if (arrays) p.ops.push_back(mk(W_INT, depth)); else { p.ops.push_back(mk(W_NAME, 0, Bytes{'v'})); p.ops.push_back(mk(W_INT, depth)); }
        for (int i = 0; i < depth; i++) p.ops.push_back(mk(arrays ? W_ARR_END : W_OBJ_END));
        p.ops.push_back(mk(W_VERIFY));
        p.note = fmt("deep nesting: %d %s", depth, arrays ? "arrays" : "objects");
        p.faults.push_back("shape:deep_write");
    } else if (ro.chance(1, 2)) {
        GenKnobs k; k.max_nodes = 1 + (int)rd.below(14); k.alphabet = (int)rd.below(3); k.long_strings = rd.chance(1, 8) ? 1 + (int)rd.below(2) : 0;
        { Rng rl = rd.fork("layout"); if (rl.chance(1, 4)) pick_name_family(rl, k); }
        Node t = gen_tree(rd, k, rd.chance(1, 4));
        tree_to_ops(t, p.ops, ro, true);
        p.note = "well-formed: " + tree_text(t);
        if (p.ops.size() > 40) p.ops.resize(40);
        if (ro.chance(1, 3)) p.ops.push_back(mk(W_VERIFY));
    } else {
        int n = 1 + (int)ro.below(40);
        for (int i = 0; i < n; i++) {
            switch (ro.below(15)) {
                case 0: p.ops.push_back(mk(W_OBJ_BEGIN)); break; case 1: p.ops.push_back(mk(W_OBJ_END)); break;
                case 2: p.ops.push_back(mk(W_ARR_BEGIN)); break; case 3: p.ops.push_back(mk(W_ARR_END)); break;
                case 4: p.ops.push_back(mk(W_BOOL, (int64_t)ro.below(2))); break;
                case 5: case 6: p.ops.push_back(mk(W_INT, interesting_int(ro))); break;
                case 7: p.ops.push_back(mk(W_DOUBLE, (int64_t)interesting_double(ro))); break;
                case 8: p.ops.push_back(mk(W_STRING, 0, payload(ro, tier || prop == "C16"))); break;
                case 9: p.ops.push_back(mk(W_NAME, 0, payload(ro, tier || prop == "C16"))); break;
                case 10: p.ops.push_back(mk(W_STRING_LEN, 0, payload(ro, tier || prop == "C16"))); break;
                case 11: p.ops.push_back(mk(W_BYTES, 0, payload(ro, tier || prop == "C16"))); break;
                case 12: p.ops.push_back(mk(W_RAW, 0, payload(ro, tier || prop == "C16"))); break;
                case 13: p.ops.push_back(mk(W_TO_WRITER, (int64_t)ro.below(prop == "C09" ? 5 : 4) + 5 * (int64_t)ro.below(AUX_DOCS))); break;
                default: p.ops.push_back(mk(ro.chance(1, 2) ? W_COUNTER : W_VERIFY)); break;
            }
        }
        for (auto &o : p.ops) if ((o.code == W_BYTES || o.code == W_STRING_LEN || o.code == W_RAW) && ro.chance(1, 6)) o.c = 1 + (int64_t)ro.below(ro.chance(1, 2) ? 3 : 20);      // value prepared in place, 0..19 bytes ahead
        p.note = "token soup";
    }
    { Rng rs = r.fork("selfsource"); if (!p.ops.empty() && rs.chance(1, 8)) { Op o = mk(W_RAW, (int64_t)(rs.chance(1, 2) ? 1 + rs.below(12) : 1 + rs.below(300)), Bytes(), -2); p.ops.insert(p.ops.begin() + 1 + (long)rs.below(p.ops.size()), o); } }   // re-embedding the head of one's own output
    { Rng rn = r.fork("nullptr"); for (auto &o : p.ops) if ((o.code == W_BYTES || o.code == W_STRING_LEN) && o.b.empty() && o.c == 0 && rn.chance(1, 2)) o.c = -1; }   // an empty value has no storage: NULL pointer, length 0
    if (prop == "C09") {
        // arbitrary further calls after the first failure, including ones that would fit, and the NULL error class
        int n = 1 + (int)ro.below(8);
        for (int i = 0; i < n; i++) {
            switch (ro.below(11)) {
                case 9: case 10: p.ops2.push_back(mk(W_TO_WRITER, (int64_t)ro.below(5) + 5 * (int64_t)ro.below(AUX_DOCS))); break;
                case 0: p.ops2.push_back(mk(W_BOOL, 1)); break; case 1: p.ops2.push_back(mk(W_INT, interesting_int(ro))); break;
                case 2: p.ops2.push_back(mk(W_OBJ_END)); break; case 3: p.ops2.push_back(mk(W_RAW, 0, Bytes())); break;
                case 4: p.ops2.push_back(mk(W_STRING_LEN, 0, payload(ro, 0))); break; case 5: p.ops2.push_back(mk(W_BYTES, 0, Bytes{1})); break;
                case 6: p.ops2.push_back(mk(W_STRING_NULL)); break; case 7: p.ops2.push_back(mk(W_RAW_NULL, (int64_t)ro.below(5))); break;
                default: p.ops2.push_back(mk(W_ARR_BEGIN)); break;
            }
        }
        if (ro.chance(1, 6)) p.ops.insert(p.ops.begin() + (long)ro.below(p.ops.size() + 1), mk(ro.chance(1, 2) ? W_STRING_NULL : W_RAW_NULL, 3));
        if (ro.chance(1, 25)) { p.par["null_init"] = 1; p.faults.push_back("F8:null_destination"); }
        {   // the FORMAT class of the writer: a string / bytes length beyond what the format can encode (2^31 .. 2^34 + a few bytes)
            Rng rx = r.fork("overlong");
            static const int64_t K[] = {1, 2, 3, 4, 5, 8, 16};
            auto overlong = [&]() { Bytes b(rx.below(6)); for (auto &x : b) x = (uint8_t)('a' + rx.below(26)); return mk(rx.chance(1, 2) ? W_BYTES : W_STRING_LEN, K[rx.below(7)], b); };
            if (rx.chance(1, 6)) p.ops.insert(p.ops.begin() + (long)rx.below(p.ops.size() + 1), overlong());
            if (rx.chance(1, 6)) p.ops2.insert(p.ops2.begin() + (long)rx.below(p.ops2.size() + 1), overlong());
        }
    }
    p.prefill = rd.next() | 1;
    p.par["only_cap"] = -1;
    p.faults.push_back("F5:every_capacity");
    return p;
}

Result capacity_execute(const Plan &p, const ExecCtx &c) {
    Result r;
    Trace tr; tr.verbose = c.verbose;
    Sink sink; sink.own = c.prop; sink.cnt = &r.cnt;
    // ---- reference
    std::vector<RefOp> ref; Bytes E; std::vector<size_t> bounds;     // bounds: piece start offsets
    bool has_null = p.P("null_init") != 0;
    for (auto &o : p.ops) {
        ref.push_back(ref_of(o)); if (ref.back().null_error) has_null = true;
        if (o.code == W_RAW && o.c == -2) {      // the caller re-embeds the first o.a bytes of its own output (source = start of the writer's buffer)
            size_t n = std::min((size_t)std::max<int64_t>(o.a, 0), E.size());
            ref.back().pieces.clear(); ref.back().pieces.push_back(Bytes(E.begin(), E.begin() + (long)n));
        }
        for (auto &pc : ref.back().pieces) { bounds.push_back(E.size()); E.insert(E.end(), pc.begin(), pc.end()); } }
    // a self-sourced raw write (c == -2) is executed with the exact length the reference decided on
    auto selfsrc = [](const Op &o, const RefOp &ro) -> Op { if (o.code != W_RAW || o.c != -2) return o; Op x = o; x.a = ro.pieces.empty() ? 0 : (int64_t)ro.pieces[0].size(); return x; };
    size_t Sreal = E.size(), S = E.size();
    bool has_phantom = false;
    for (auto &ro : ref) if (ro.phantom) { S += ro.phantom; has_phantom = true; }
    std::vector<RefOp> ref2; for (auto &o : p.ops2) ref2.push_back(ref_of(o));
    // ---- capacities
    std::vector<size_t> caps;
    int64_t only = p.P("only_cap", -1);
    if (only >= 0) caps.push_back((size_t)only);
    else if (Sreal <= 4096) { for (size_t cc = 0; cc <= Sreal + 3; cc++) caps.push_back(cc); bump(r.cnt, "capacity.axis_exhaustive_sequences"); }
    else {
        std::set<size_t> s; s.insert(0); s.insert(1);
        for (size_t b : bounds) for (long d = -2; d <= 2; d++) { long v = (long)b + d; if (v >= 0) s.insert((size_t)v); }
        for (long d = -2; d <= 3; d++) s.insert((size_t)((long)Sreal + d));
        Rng rc(p.seed ^ 0xC0FFEE);
        for (int i = 0; i < 256; i++) s.insert(rc.below(Sreal + 4));
        caps.assign(s.begin(), s.end());
    }
    bool cut_mid_token = false;
    uint64_t points = 0;
    for (size_t cap : caps) {
        if (sink.failed()) break;
        points++;
        WSession ws(tr, sink, r.cnt);
        ws.tag = fmt("c=%zu ", cap);
        ws.setup(p.prefill);
        bool null_init = p.P("null_init") != 0;
        Outcome i = ws.call(mk(W_INIT, null_init ? -(int64_t)(cap + 1) : (int64_t)cap));
        if (!null_init && !i.ret) { sink.fail("C04.init", "binson_writer_init rejected a valid buffer"); break; }
        if (null_init && (i.ret || i.err == 0)) { sink.fail("C09.writer.null_init", "binson_writer_init with a NULL buffer returned true / latched no error"); break; }
        // reference state for this capacity
        size_t used = 0, k = 0; bool failed = null_init, nullerr = null_init; size_t stored = 0;
        if (null_init) cap = 0;
        auto apply_ref = [&](const RefOp &ro) -> bool {      // returns expected return value of the call
            if (ro.null_error) { if (!failed) { failed = true; k = used; } nullerr = true; return false; }
            if (ro.refused) return false;        // nothing to extract: returns false, writer untouched (no latch)
            if (ro.phantom) { if (!failed) { failed = true; k = used; } used += ro.phantom; return false; }
            for (auto &pc : ro.pieces) {
                if (!failed && used + pc.size() <= cap) { stored = used + pc.size(); }
                else if (!failed) { failed = true; k = used; if (used < cap) cut_mid_token = true; }
                used += pc.size();
            }
            return !failed;
        };
        for (size_t oi = 0; oi < p.ops.size() && !sink.failed(); oi++) {
            if (p.ops[oi].code == W_VERIFY) { ws.call(p.ops[oi]); continue; }      // exercised for memory safety only: its verdict is C05's business
            if (p.ops[oi].code == W_COUNTER) { Outcome o = ws.call(p.ops[oi]); if (o.size_out != used) sink.fail("C04.counter.midway", fmt("cap=%zu: get_counter=%zu after %zu calls, reference size so far %zu", cap, o.size_out, oi, used)); continue; }
            bool was_failed = failed;
            bool want = apply_ref(ref[oi]);
            Outcome o = ws.call(selfsrc(p.ops[oi], ref[oi]));
            bool error_class_op = ref[oi].null_error || ref[oi].phantom;      // a call that must RAISE an error of the NULL / FORMAT class
            if (o.ret != want) sink.fail(was_failed ? "C09.writer.write_true_after_failure" : error_class_op ? "C09.writer.error_not_raised" : "C04.return", fmt("cap=%zu: call %zu (%s) returned %d, expected %d", cap, oi, OP_NAMES[p.ops[oi].code], o.ret, want));
            if (error_class_op && !was_failed && o.err == 0) sink.fail("C09.writer.error_not_raised", fmt("cap=%zu: call %zu (%s) must fail (NULL argument / length beyond the format's limit) but left the error indicator at NONE", cap, oi, OP_NAMES[p.ops[oi].code]));
            if (o.used != used) sink.fail(was_failed || error_class_op ? "C09.writer.counter_stopped" : "C04.counter", fmt("cap=%zu: counter=%zu after call %zu (%s), reference size %zu", cap, o.used, oi, OP_NAMES[p.ops[oi].code], used));
        }
        if (sink.failed()) break;
        if (!failed) k = used;
        size_t keep = failed ? std::min(k, cap) : used;        // prefix that must be present
        (void)stored;
        uint32_t e = ws.err();
        if (!has_null) {
            bool want_range = S > cap;
            if (want_range != (e == BINSON_ERROR_RANGE) || (!want_range && e != 0)) sink.fail("C04.error_iff", fmt("cap=%zu size=%zu: error=%s", cap, S, err_name(e)));
            if (ws.counter() != S) sink.fail("C04.counter.final", fmt("cap=%zu: counter=%zu, exact encoded size %zu", cap, ws.counter(), S));
        } else if (failed && e == 0) sink.fail("C09.writer.flag_lost", fmt("cap=%zu: a write failed but the error indicator is NONE", cap));
        if (keep && memcmp(ws.dest(), E.data(), keep) != 0) sink.fail("C04.prefix", fmt("cap=%zu: destination does not hold the first %zu bytes of the reference encoding", cap, keep));
        for (size_t j = keep; j < cap; j++) if (ws.dest()[j] != ws.shadow[j]) { sink.fail(failed ? "C04.stored_after_failure" : "C04.stray_store", fmt("cap=%zu: byte %zu was modified beyond the %zu-byte prefix that fits", cap, j, keep)); break; }
        if (sink.failed()) break;
        // ---- C09 writer: arbitrary further calls after the run (latch monitor inside WSession checks return/stores/flag)
        if (!p.ops2.empty()) {
            bool any_after = false;
            for (size_t oi = 0; oi < p.ops2.size() && !sink.failed(); oi++) {
                bool was_failed = failed;
                bool want = apply_ref(ref2[oi]);
                Outcome o = ws.call(selfsrc(p.ops2[oi], ref2[oi]));
                if (was_failed) { any_after = true; bump(r.cnt, "capacity.writes_after_failure"); }
                if (o.ret != want) sink.fail(was_failed ? "C09.writer.write_true_after_failure" : "C04.return", fmt("cap=%zu: follow-up call %zu (%s) returned %d, expected %d", cap, oi, OP_NAMES[p.ops2[oi].code], o.ret, want));
                if (o.used != used) sink.fail(was_failed ? "C09.writer.counter_stopped" : "C04.counter", fmt("cap=%zu: counter=%zu after follow-up call %zu, reference %zu", cap, o.used, oi, used));
                if (failed && o.err == 0) sink.fail("C09.writer.flag_lost", fmt("cap=%zu: error indicator cleared by follow-up call %zu", cap, oi));
            }
            if (any_after) r.nontrivial = true;
        }
        if (nullerr) bump(r.cnt, "capacity.null_error_runs");
    }
    // ---- retry protocol: same calls with a buffer of the reported size succeed and fill it exactly
    if (!sink.failed() && !has_null && !has_phantom && only < 0) {
        WSession ws(tr, sink, r.cnt);
        ws.tag = "retry ";
        ws.setup(p.prefill);
        ws.call(mk(W_INIT, (int64_t)S));
        bool all = true;
        for (size_t oi = 0; oi < p.ops.size(); oi++) { if (p.ops[oi].code == W_COUNTER || p.ops[oi].code == W_VERIFY) continue; Outcome x = ws.call(selfsrc(p.ops[oi], ref[oi])); if (x.ret == ref[oi].refused) all = false; }
        if (!all || ws.err() != 0 || ws.counter() != S || (S && memcmp(ws.dest(), E.data(), S) != 0)) sink.fail("C04.retry", fmt("re-running the calls with a buffer of the reported size %zu did not succeed / fill it exactly (err=%s counter=%zu)", S, err_name(ws.err()), ws.counter()));
        points++;
    }
    bump(r.cnt, "capacity.points", points);
    if (cut_mid_token) bump(r.cnt, "probe.capacity_cuts_token");
    r.clause = sink.clause; r.detail = sink.detail;
    r.trace_hash = tr.h; r.steps = points * (p.ops.size() + 1); r.calls = r.steps;
    if (p.prop != "C09") r.nontrivial = cut_mid_token;
    if (c.verbose) r.log = tr.log;
    return r;
}

void capacity_shrink(const Plan &p, std::vector<Plan> &out) {
    if (p.P("only_cap", -1) < 0) {
        size_t S = 0; for (auto &o : p.ops) for (auto &pc : ref_of(o).pieces) S += pc.size();
        std::set<size_t> s;
        for (size_t c = 0; c <= std::min<size_t>(S + 3, 96); c++) s.insert(c);
        for (long d = -3; d <= 3; d++) if ((long)S + d >= 0) s.insert((size_t)((long)S + d));
        for (size_t c : s) { Plan q = p; q.par["only_cap"] = (int64_t)c; out.push_back(q); }
    }
    for (size_t i = 0; i < p.ops.size() && out.size() < 400; i++) if (p.ops[i].b.size() > 1) { Plan q = p; q.ops[i].b.resize(p.ops[i].b.size() / 2); out.push_back(q); }
}

} // namespace

extern const Engine ENGINE_CAPACITY = {"capacity", capacity_generate, capacity_execute, capacity_shrink, nullptr};
