// gen_common.hpp - generation helpers shared by the engines (defined in eng_sloppy.cpp)
#pragma once
#include "core.hpp"
#include "model.hpp"
void collect_names(const Node &n, std::vector<Bytes> &out);
Bytes gen_document(Rng &rd, int tier, int &root_kind, Node *tree_out, bool &valid, std::vector<std::string> &faults, int *need_out);
void apply_faults(Rng &rf, Bytes &doc, int count, std::vector<std::string> &faults, const Bytes *other);
Bytes deep_document(Rng &rd, int &root_kind, std::vector<std::string> &faults, int &need);
void gen_sloppy_ops(Rng &ro, std::vector<Op> &ops, int nops, const std::vector<Bytes> &names, size_t doclen, int root_kind, bool with_restarts);
