// eng_interleave.cpp - `interleave` engine (C17, dynamic reading): 2-4 caller tasks, each a real thread parked on
// its own semaphore; exactly one runs at a time and the seeded scheduler decides who (F10). Yield points: before
// every API call, inside calls at every token callback, and (yield build) at every libc call the library makes.
// Each task owns its documents, parser/writer objects and output sinks. Oracle: the event log of every task under
// the explored interleaving equals its solo log. A writable static in the library that carries information across
// any yield point makes two logs differ.
#include "session.hpp"
#include "model.hpp"
#include "engines.hpp"
#include "gen_common.hpp"
#include <pthread.h>
#include <semaphore.h>

namespace {

static Op mk(int code, int64_t a = 0, const Bytes &b = Bytes(), int64_t c = 0) { Op o; o.code = code; o.a = a; o.b = b; o.c = c; return o; }

struct Task {
    int id = 0;
    const Plan *plan = nullptr;
    ExecCtx ctx;
    Result res;
    sem_t sem;
    bool finished = false;
    pthread_t th;
    uint64_t yields[3] = {0, 0, 0};
};

struct Sched {
    sem_t main_sem;
    std::vector<Task *> tasks;
    unsigned ymask = 7;
    bool active = false;
};
static Sched *g_sched = nullptr;
static __thread Task *t_task = nullptr;

static void yield_hook(int kind) {
    Task *t = t_task;
    if (!t || !g_sched || !g_sched->active) return;
    if (!(g_sched->ymask & (1u << kind))) return;
    t->yields[kind]++;
    sem_post(&g_sched->main_sem);       // hand control back to the scheduler ...
    sem_wait(&t->sem);                  // ... and park until released again
}

static void *task_main(void *arg) {
    Task *t = (Task *)arg;
    t_task = t;
    sem_wait(&t->sem);                  // parked until first scheduled
    const Engine *e = find_engine(t->plan->engine);
    if (e) t->res = e->execute(*t->plan, t->ctx);
    t->finished = true;
    t_task = nullptr;
    sem_post(&g_sched->main_sem);
    return nullptr;
}

// runs the given tasks to completion under the schedule; returns switch count and schedule hash
static void run_tasks(std::vector<Task> &tasks, const std::vector<Op> &choices, unsigned ymask, uint64_t &switches, uint64_t &sched_hash, uint64_t per_kind[3]) {
    Sched s; sem_init(&s.main_sem, 0, 0); s.ymask = ymask; s.active = true;
    for (auto &t : tasks) { sem_init(&t.sem, 0, 0); s.tasks.push_back(&t); }
    g_sched = &s;
    void (*saved_hook)(int) = g_yield_hook;
    g_yield_hook = yield_hook;
    pthread_attr_t attr; pthread_attr_init(&attr); pthread_attr_setstacksize(&attr, 1 << 20);
    for (auto &t : tasks) pthread_create(&t.th, &attr, task_main, &t);
    size_t ci = 0; int last = -1; switches = 0; sched_hash = 0xcbf29ce484222325ULL;
    while (true) {
        std::vector<Task *> runnable;
        for (auto &t : tasks) if (!t.finished) runnable.push_back(&t);
        if (runnable.empty()) break;
        uint64_t c = ci < choices.size() ? (uint64_t)choices[ci++].a : (uint64_t)(last + 1);    // exhausted: round robin
        Task *t = runnable[c % runnable.size()];
        if (t->id != last) { switches++; last = t->id; }
        sched_hash = (sched_hash ^ (uint64_t)(t->id + 1)) * 0x100000001b3ULL;
        sem_post(&t->sem);
        sem_wait(&s.main_sem);
    }
    for (auto &t : tasks) { pthread_join(t.th, nullptr); for (int k = 0; k < 3; k++) per_kind[k] += t.yields[k]; sem_destroy(&t.sem); }
    g_yield_hook = saved_hook;
    g_sched = nullptr;
    sem_destroy(&s.main_sem);
    pthread_attr_destroy(&attr);
}

Plan interleave_generate(uint64_t base, const std::string &prop, uint64_t index, int tier) {
    Plan p; p.engine = "interleave"; p.prop = prop; p.index = index;
    p.seed = run_seed(base, "interleave", prop, index);
    Rng r(p.seed);
    Rng rs = r.fork("scheduler"), rt = r.fork("tasks");
    int n = 2 + (int)rt.below(3);
    static const char *engines[] = {"sloppy", "sloppy", "nav", "nav", "tostring", "capacity", "traverse"};
    // a quarter of the runs put the SAME kind of task on every thread: whatever one library function keeps in static storage is
    // then used by several tasks at once
    static const char *kinds[] = {"sloppy", "nav", "tostring", "capacity", "traverse"};
    Rng rh = r.fork("homogeneous");
    const char *same = rh.chance(1, 4) ? kinds[rh.below(5)] : nullptr;
    for (int k = 0; k < n; k++) {
        const char *en = same ? same : engines[rt.below(7)];
        const Engine *e = find_engine(en);
        Plan sp = e->generate(p.seed, "MIX", (uint64_t)k, tier);
        // keep the per-task cost small: capacity / tostring sweeps are pinned to a few capacities
        if (sp.engine == "capacity" || sp.engine == "tostring") sp.par["only_cap"] = (int64_t)rt.below(24);
        if (sp.engine == "capacity" && sp.ops.size() > 12) sp.ops.resize(12);
        if (sp.engine == "capacity" && rh.chance(1, 2)) { sp.par["only_cap"] = 100000; sp.ops.push_back(mk(W_VERIFY)); if (sp.ops.size() > 2) sp.ops.insert(sp.ops.begin() + (long)(sp.ops.size() / 2), mk(W_VERIFY)); }   // everything fits: binson_writer_verify runs
        sp.note.clear();
        p.sub.push_back(sp);
    }
    unsigned ym = (unsigned)rs.below(8);
    p.par["ymask"] = ym == 0 ? 7 : (int64_t)ym;     // swarm: a random subset of yield-point kinds per run
    p.par["solo"] = 0;
    int nch = 20 + (int)rs.below(tier ? 3000 : 600);
    int stick = (int)rs.below(90);                  // per-run bias to stay on the same task: varied burst lengths
    int64_t cur = (int64_t)rs.below(4);
    for (int i = 0; i < nch; i++) { if ((int)rs.below(100) >= stick) cur = (int64_t)rs.below(4); p.ops.push_back(mk(X_CHOICE, cur)); }
    p.faults.push_back(fmt("F10:tasks=%d", n));
    return p;
}

Result interleave_execute(const Plan &p, const ExecCtx &c) {
    Result r;
    if (p.sub.empty()) { r.invalid_plan = true; r.detail = "no tasks"; return r; }
    for (auto &sp : p.sub) if (!find_engine(sp.engine) || sp.engine == "interleave") { r.invalid_plan = true; r.detail = "bad task engine"; return r; }
    Sink sink; sink.own = c.prop; sink.cnt = &r.cnt;
    size_t n = p.sub.size();
    uint64_t per_kind[3] = {0, 0, 0};
    // ---- solo: every task alone, through the same code path (threads + scheduler with one runnable task)
    std::vector<Result> solo(n);
    for (size_t k = 0; k < n; k++) {
        std::vector<Task> one(1);
        one[0].id = (int)k; one[0].plan = &p.sub[k]; one[0].ctx.verbose = true; one[0].ctx.prop = "";
        uint64_t sw, sh, pk[3] = {0, 0, 0};
        run_tasks(one, std::vector<Op>(), (unsigned)p.P("ymask", 7), sw, sh, pk);
        solo[k] = one[0].res;
        r.steps += solo[k].steps;
    }
    uint64_t switches = 0, sched_hash = 0;
    Trace tr; tr.verbose = c.verbose;
    if (!p.P("solo")) {
        std::vector<Task> tasks(n);
        for (size_t k = 0; k < n; k++) { tasks[k].id = (int)k; tasks[k].plan = &p.sub[k]; tasks[k].ctx.verbose = true; tasks[k].ctx.prop = ""; }
        run_tasks(tasks, p.ops, (unsigned)p.P("ymask", 7), switches, sched_hash, per_kind);
        for (size_t k = 0; k < n && !sink.failed(); k++) {
            const Result &a = tasks[k].res, &b = solo[k];
            r.steps += a.steps;
            if (a.clause != b.clause) sink.fail(fmt("C17.interference.task%zu.verdict", k), fmt("task %zu (%s): oracle verdict '%s' when interleaved, '%s' when run alone", k, p.sub[k].engine.c_str(), a.clause.c_str(), b.clause.c_str()));
            for (size_t i = 0; i < std::max(a.log.size(), b.log.size()) && !sink.failed(); i++) {
                std::string x = i < a.log.size() ? a.log[i] : "<nothing>", y = i < b.log.size() ? b.log[i] : "<nothing>";
                if (x != y) sink.fail(fmt("C17.interference.task%zu", k), fmt("task %zu (%s) event %zu - interleaved: %s | alone: %s", k, p.sub[k].engine.c_str(), i, x.c_str(), y.c_str()));
            }
            tr.add(fmt("task%zu %s events=%zu hash=%016llx", k, p.sub[k].engine.c_str(), a.log.size(), (unsigned long long)a.trace_hash));
        }
    } else for (size_t k = 0; k < n; k++) tr.add(fmt("task%zu %s events=%zu hash=%016llx (solo)", k, p.sub[k].engine.c_str(), solo[k].log.size(), (unsigned long long)solo[k].trace_hash));
    // allocator gate hits inside any task surface in the task's own verdict ("C17.allocator_call") - report them here too
    for (size_t k = 0; k < n; k++) {
        if (solo[k].clause.compare(0, 4, "C17.") == 0) sink.fail(solo[k].clause, solo[k].detail);
        for (auto &kv : solo[k].cnt) if (kv.first.compare(0, 4, "api.") == 0) r.cnt[kv.first] += kv.second;
    }
    bump(r.cnt, "interleave.switches", switches);
    bump(r.cnt, "interleave.yield_at_call", per_kind[0]); bump(r.cnt, "interleave.yield_at_token", per_kind[1]); bump(r.cnt, "interleave.yield_at_libc", per_kind[2]);
    bump(r.cnt, "fault.F10", switches);
    r.cnt["interleave.max_switches_in_a_run"] = switches;
    r.clause = sink.clause; r.detail = sink.detail;
    tr.add(fmt("schedule switches=%llu hash=%016llx", (unsigned long long)switches, (unsigned long long)sched_hash));
    r.trace_hash = tr.h; r.calls = n;
    r.nontrivial = switches >= 4;
    // distinct interleavings are counted through the transition set: low 32 bits of the schedule hash
    r.transitions.push_back((uint32_t)(sched_hash ^ (sched_hash >> 32)));
    if (c.verbose) { r.log = tr.log; }
    return r;
}

void interleave_shrink(const Plan &p, std::vector<Plan> &out) {
    for (size_t k = 0; k < p.sub.size() && p.sub.size() > 1; k++) { Plan q = p; q.sub.erase(q.sub.begin() + (long)k); out.push_back(q); }
    for (size_t k = 0; k < p.sub.size(); k++) {
        size_t n = p.sub[k].ops.size();
        for (size_t chunk = n / 2; chunk >= 1; chunk /= 2) { for (size_t st = 0; st + chunk <= n && out.size() < 200; st += chunk) { Plan q = p; q.sub[k].ops.erase(q.sub[k].ops.begin() + (long)st, q.sub[k].ops.begin() + (long)(st + chunk)); out.push_back(q); } if (chunk == 1) break; }
    }
    if (p.P("ymask", 7) != 7) { Plan q = p; q.par["ymask"] = 7; out.push_back(q); }
}

} // namespace

extern const Engine ENGINE_INTERLEAVE = {"interleave", interleave_generate, interleave_execute, interleave_shrink, nullptr};
