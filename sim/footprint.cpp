// footprint.cpp - `binsim footprint`: stack high-water of every public C function as a function of nesting
// depth and document size (C17, dynamic reading, part 3). The calling thread runs on a stack the harness owns;
// the region below the caller's frame is painted before each library call and scanned afterwards.
// A recursive descent or a variable-length array grows by a frame per level / per byte and trips the bound.
#include "session.hpp"
#include "model.hpp"
#include "runner.hpp"
#include <pthread.h>
#include <sys/mman.h>
#include <functional>
#include <dlfcn.h>

namespace {

const size_t PAINT = 96 * 1024;
const uint8_t PAT = 0xC5;

struct Meas { std::map<std::string, size_t> hw; };      // function -> max high-water over all its calls on one document

// paints the stack below its own frame; everything the following call touches lies below the returned address
static __attribute__((noinline)) volatile uint8_t *paint_below() {
    volatile uint8_t *hi = (volatile uint8_t *)__builtin_frame_address(0) - 192;    // below this function's own frame
    volatile uint8_t *lo = hi - PAINT;
    for (volatile uint8_t *q = lo; q < hi; q++) *q = PAT;
    return hi;
}
static __attribute__((noinline)) size_t scan_below(volatile uint8_t *hi) {
    volatile uint8_t *q = hi - PAINT;
    while (q < hi && *q == PAT) q++;
    return (size_t)(hi - q);
}
static __attribute__((noinline)) size_t painted_call(const std::function<void()> &f) {
    volatile uint8_t *hi = paint_below();
    f();
    return scan_below(hi);
}

struct Ctx { std::function<void()> job; };
static void *thread_main(void *a) { ((Ctx *)a)->job(); return nullptr; }

static void on_big_stack(std::function<void()> job) {
    size_t sz = 4 << 20;
    void *stk = mmap(nullptr, sz, PROT_READ | PROT_WRITE, MAP_PRIVATE | MAP_ANONYMOUS, -1, 0);
    pthread_attr_t at; pthread_attr_init(&at); pthread_attr_setstack(&at, stk, sz);
    Ctx c{job}; pthread_t th;
    pthread_create(&th, &at, thread_main, &c);
    pthread_join(th, nullptr);
    pthread_attr_destroy(&at);
    munmap(stk, sz);
}

static void rec(Meas &m, const std::string &fn, size_t v) { size_t &s = m.hw[fn]; if (v > s) s = v; }

static Bytes nested_doc(int objs, int arrs, size_t strlen_) {
    // {"a":{"a":...{"a":[[[...[1,"ssss"]...]]]}...}}: identical leaves at every nesting
    Node root; root.t = V_OBJ;
    Node *cur = &root;
    for (int i = 1; i < objs; i++) { Node c; c.t = V_OBJ; c.name = Bytes{'a'}; cur->kids.push_back(c); cur = &cur->kids.back(); }
    Node holder; holder.t = V_ARR; holder.name = Bytes{'a'};
    cur->kids.push_back(holder); cur = &cur->kids.back();
    for (int i = 1; i < arrs; i++) { Node c; c.t = V_ARR; cur->kids.push_back(c); cur = &cur->kids.back(); }
    Node one; one.t = V_INT; one.i = 1; cur->kids.push_back(one);
    Node s; s.t = V_STR; s.s.assign(strlen_, 's'); cur->kids.push_back(s);
    Node b; b.t = V_BYTES; b.s = Bytes{1, 2, 3}; cur->kids.push_back(b);
    Node d; d.t = V_DBL; d.d = 0x3ff8000000000000ULL; cur->kids.push_back(d);
    // magnitudes at the ends of the ranges: whatever the library does per digit / per byte of a number shows here
    { Node x; x.t = V_INT; x.i = INT64_MAX; cur->kids.push_back(x); x.i = INT64_MIN; cur->kids.push_back(x); x.i = 4294967296LL; cur->kids.push_back(x); }
    { Node x; x.t = V_DBL; x.d = 0x7fefffffffffffffULL; cur->kids.push_back(x); x.d = 0x0000000000000001ULL; cur->kids.push_back(x); }
    Bytes out; encode(root, out);
    return out;
}

// a document whose bytes value is itself a document, n levels deep ("envelopes"): data that looks like structure
static Bytes envelope_doc(int n) {
    Node inner; inner.t = V_OBJ;
    { Node v; v.t = V_INT; v.i = 1; v.name = Bytes{'v'}; inner.kids.push_back(v); }
    Bytes cur; encode(inner, cur);
    for (int i = 0; i < n; i++) {
        Node o; o.t = V_OBJ;
        Node e; e.t = V_BYTES; e.name = Bytes{'e'}; e.s = cur; o.kids.push_back(e);
        encode(o, cur);
    }
    return cur;
}

// one flat object with n fields whose values cycle through all seven kinds ({} [] int bool double string bytes): whatever a
// lookup or a skip does per FIELD (rather than per nesting level) shows as growth between 7 and 7000 fields
static Bytes wide_doc(int n) {
    Node root; root.t = V_OBJ;
    for (int i = 0; i < n; i++) {
        Node c; char nm[16]; snprintf(nm, sizeof nm, "k%06d", i); c.name.assign(nm, nm + 7);
        switch (i % 7) {
            case 0: c.t = V_OBJ; break; case 1: c.t = V_ARR; break; case 2: c.t = V_INT; c.i = (i % 21 == 2) ? INT64_MIN + i : (i % 21 == 9) ? INT64_MAX - i : i; break; case 3: c.t = V_BOOL; c.b = true; break;
            case 4: c.t = V_DBL; c.d = 0x3ff8000000000000ULL; break; case 5: c.t = V_STR; c.s = Bytes{'s', 's', 's', 's'}; break; default: c.t = V_BYTES; c.s = Bytes{1, 2, 3}; break;
        }
        root.kids.push_back(c);
    }
    Bytes out; encode(root, out);
    return out;
}

static void measure_doc(const Bytes &doc, int depth, Meas &m) {
    std::vector<binson_state> st((size_t)depth);
    binson_parser p; memset(&p, 0, sizeof p); p.state = st.data(); p.max_depth = (uint_fast8_t)depth;
    bool ok = false;
    rec(m, "binson_parser_init_object", painted_call([&] { ok = binson_parser_init_object(&p, doc.data(), doc.size()); }));
    rec(m, "binson_parser_verify", painted_call([&] { ok = binson_parser_verify(&p); }));
    rec(m, "binson_parser_reset", painted_call([&] { binson_parser_reset(&p); }));
    // complete traversal: enter everything
    std::vector<int> kinds;
    rec(m, "binson_parser_go_into_object", painted_call([&] { binson_parser_go_into_object(&p); }));
    kinds.push_back(1);
    int guard = 0;
    while (!kinds.empty() && guard++ < 100000) {
        bool nx = false;
        rec(m, "binson_parser_next", painted_call([&] { nx = binson_parser_next(&p); }));
        if (nx) {
            binson_type t = BINSON_TYPE_NONE;
            rec(m, "binson_parser_get_type", painted_call([&] { t = binson_parser_get_type(&p); }));
            rec(m, "binson_parser_get_depth", painted_call([&] { binson_parser_get_depth(&p); }));
            if (kinds.back() == 1) rec(m, "binson_parser_get_name", painted_call([&] { binson_parser_get_name(&p); }));
            rec(m, "binson_parser_get_integer", painted_call([&] { binson_parser_get_integer(&p); }));
            rec(m, "binson_parser_get_boolean", painted_call([&] { binson_parser_get_boolean(&p); }));
            rec(m, "binson_parser_get_double", painted_call([&] { binson_parser_get_double(&p); }));
            rec(m, "binson_parser_get_string_bbuf", painted_call([&] { binson_parser_get_string_bbuf(&p); }));
            rec(m, "binson_parser_get_bytes_bbuf", painted_call([&] { binson_parser_get_bytes_bbuf(&p); }));
            rec(m, "binson_parser_string_equals", painted_call([&] { binson_parser_string_equals(&p, "ssss"); }));
            if (t == BINSON_TYPE_OBJECT) { rec(m, "binson_parser_go_into_object", painted_call([&] { binson_parser_go_into_object(&p); })); kinds.push_back(1); }
            else if (t == BINSON_TYPE_ARRAY) { rec(m, "binson_parser_go_into_array", painted_call([&] { binson_parser_go_into_array(&p); })); kinds.push_back(3); }
        } else {
            if (kinds.back() == 1) rec(m, "binson_parser_leave_object", painted_call([&] { binson_parser_leave_object(&p); }));
            else rec(m, "binson_parser_leave_array", painted_call([&] { binson_parser_leave_array(&p); }));
            kinds.pop_back();
        }
    }
    // skipping everything from the top: the whole nesting is walked inside ONE call
    binson_parser_reset(&p);
    binson_parser_go_into_object(&p);
    rec(m, "binson_parser_field(skip-all)", painted_call([&] { binson_parser_field(&p, "zz"); }));
    binson_parser_reset(&p);
    binson_parser_go_into_object(&p);
    rec(m, "binson_parser_field_ensure(hit)", painted_call([&] { binson_parser_field_ensure(&p, "a", BINSON_TYPE_OBJECT); }));
    p.error_flags = BINSON_ERROR_NONE;
    binson_parser_reset(&p);
    binson_parser_go_into_object(&p);
    binson_parser_next(&p);
    bbuf raw; raw.bptr = nullptr; raw.bsize = 0;
    rec(m, "binson_parser_get_raw", painted_call([&] { binson_parser_get_raw(&p, &raw); }));
    binson_parser_reset(&p);
    binson_parser_go_into_object(&p);
    binson_parser_next(&p);
    std::vector<uint8_t> wbuf(doc.size() + 16);
    binson_writer w; binson_writer_init(&w, wbuf.data(), wbuf.size());
    rec(m, "binson_parser_to_writer", painted_call([&] { binson_parser_to_writer(&p, &w); }));
    binson_parser_reset(&p);
    binson_parser_go_into_object(&p);
    rec(m, "binson_parser_leave_object(early)", painted_call([&] { binson_parser_leave_object(&p); }));
    // the remaining lookup / ensure variants and an array-rooted parser
    binson_parser_reset(&p);
    binson_parser_go_into_object(&p);
    rec(m, "binson_parser_next_ensure", painted_call([&] { binson_parser_next_ensure(&p, BINSON_TYPE_OBJECT); }));
    p.error_flags = BINSON_ERROR_NONE;
    binson_parser_reset(&p);
    binson_parser_go_into_object(&p);
    rec(m, "binson_parser_field_with_length(skip-all)", painted_call([&] { binson_parser_field_with_length(&p, "zz", 2); }));
    binson_parser_reset(&p);
    binson_parser_go_into_object(&p);
    rec(m, "binson_parser_field_ensure_with_length(miss)", painted_call([&] { binson_parser_field_ensure_with_length(&p, "zz", 2, BINSON_TYPE_INTEGER); }));
    {
        // every ensure variant with every wanted type, on a name behind all fields (each field is passed and type-checked or skipped)
        static const binson_type TY[] = {BINSON_TYPE_OBJECT, BINSON_TYPE_ARRAY, BINSON_TYPE_BOOLEAN, BINSON_TYPE_INTEGER, BINSON_TYPE_DOUBLE, BINSON_TYPE_STRING, BINSON_TYPE_BYTES};
        for (binson_type t : TY) {
            binson_parser_reset(&p); binson_parser_go_into_object(&p);
            rec(m, fmt("binson_parser_field_ensure(miss, wanted type %d)", (int)t).c_str(), painted_call([&] { binson_parser_field_ensure(&p, "zz", t); }));
            binson_parser_reset(&p); binson_parser_go_into_object(&p);
            rec(m, fmt("binson_parser_field_ensure_with_length(miss, wanted type %d)", (int)t).c_str(), painted_call([&] { binson_parser_field_ensure_with_length(&p, "zz", 2, t); }));
            binson_parser_reset(&p); binson_parser_go_into_object(&p);
            rec(m, fmt("binson_parser_next_ensure(wanted type %d)", (int)t).c_str(), painted_call([&] { binson_parser_next_ensure(&p, t); }));
        }
        binson_parser_reset(&p);
    }
    {
        // the same nesting as an array-rooted document: [ <object document> ]
        Bytes ad; ad.push_back(0x42); ad.insert(ad.end(), doc.begin(), doc.end()); ad.push_back(0x43);
        std::vector<binson_state> st2((size_t)std::min(255, depth + 1));
        binson_parser q; memset(&q, 0, sizeof q); q.state = st2.data(); q.max_depth = (uint_fast8_t)st2.size();
        rec(m, "binson_parser_init_array", painted_call([&] { binson_parser_init_array(&q, ad.data(), ad.size()); }));
        if (depth + 1 <= 255) {
            rec(m, "binson_parser_verify(array root)", painted_call([&] { binson_parser_verify(&q); }));
            binson_parser_go_into_array(&q);
            binson_parser_next(&q);
            rec(m, "binson_parser_leave_array(early, array root)", painted_call([&] { binson_parser_leave_array(&q); }));
        }
    }
    // rendering
    std::vector<char> text(doc.size() * 4 + 4096);
    size_t tsz = text.size();
    rec(m, "binson_parser_to_string", painted_call([&] { binson_parser_to_string(&p, text.data(), &tsz, false); }));
    std::string sinkbuf; g_capture = &sinkbuf;
    rec(m, "binson_parser_print", painted_call([&] { binson_parser_print(&p); fflush(stdout); }));
    g_capture = nullptr;
    (void)ok;
}

static void measure_writer(size_t payload, Meas &m) {
    std::vector<uint8_t> buf(payload * 3 + 256), data(payload, 0x61);
    data.push_back(0);
    binson_writer w;
    rec(m, "binson_writer_init", painted_call([&] { binson_writer_init(&w, buf.data(), buf.size()); }));
    rec(m, "binson_write_object_begin", painted_call([&] { binson_write_object_begin(&w); }));
    rec(m, "binson_write_name", painted_call([&] { binson_write_name(&w, "a"); }));
    rec(m, "binson_write_string", painted_call([&] { binson_write_string(&w, (const char *)data.data()); }));
    rec(m, "binson_write_name", painted_call([&] { binson_write_name(&w, "b"); }));
    rec(m, "binson_write_string_with_len", painted_call([&] { binson_write_string_with_len(&w, (const char *)data.data(), payload); }));
    rec(m, "binson_write_name", painted_call([&] { binson_write_name(&w, "c"); }));
    rec(m, "binson_write_bytes", painted_call([&] { binson_write_bytes(&w, data.data(), payload); }));
    rec(m, "binson_write_name", painted_call([&] { binson_write_name(&w, "d"); }));
    rec(m, "binson_write_array_begin", painted_call([&] { binson_write_array_begin(&w); }));
    rec(m, "binson_write_integer", painted_call([&] { binson_write_integer(&w, (int64_t)payload * 1000003); }));
    rec(m, "binson_write_double", painted_call([&] { binson_write_double(&w, 1.5); }));
    rec(m, "binson_write_boolean", painted_call([&] { binson_write_boolean(&w, true); }));
    rec(m, "binson_write_array_end", painted_call([&] { binson_write_array_end(&w); }));
    rec(m, "binson_write_object_end", painted_call([&] { binson_write_object_end(&w); }));
    rec(m, "binson_writer_get_counter", painted_call([&] { binson_writer_get_counter(&w); }));
    rec(m, "binson_writer_verify", painted_call([&] { binson_writer_verify(&w); }));
    rec(m, "binson_write_raw", painted_call([&] { binson_write_raw(&w, data.data(), payload); }));
    // the caller may prepare a value inside the destination buffer itself (the writer uses memmove): the source then
    // aliases the output at or just behind the write position. The bytes produced in that case are the caller's
    // business; the stack needed to produce them must still not depend on the length.
    {
        std::vector<uint8_t> big(payload * 16 + 4096, 0x62);
        binson_writer a; binson_writer_init(&a, big.data(), big.size());
        binson_write_array_begin(&a);
        static const size_t ks[] = {0, 1, 2, 3, 5, 64};
        for (size_t k : ks) {
            rec(m, "binson_write_bytes(source inside own buffer)", painted_call([&] { binson_write_bytes(&a, big.data() + binson_writer_get_counter(&a) + k, payload); }));
            rec(m, "binson_write_string_with_len(source inside own buffer)", painted_call([&] { binson_write_string_with_len(&a, (const char *)big.data() + binson_writer_get_counter(&a) + k, payload); }));
        }
        big[big.size() - 1] = 0;
    }
    rec(m, "binson_writer_reset", painted_call([&] { binson_writer_reset(&w); }));
}

} // namespace

// prints a JSON object with the measurements; returns 1 and prints FAILURE lines if a bound is violated
int footprint_cmd(const std::string &json_path, const std::string &replay_dir) {
    struct Variant { std::string name; int objs, arrs; size_t slen; };
    std::vector<Variant> vs = {
        {"shallow-small", 1, 1, 4}, {"objects-2", 2, 1, 4}, {"objects-8", 8, 1, 4}, {"objects-64", 64, 1, 4}, {"objects-255", 255, 1, 4},
        {"arrays-8", 1, 8, 4}, {"arrays-64", 1, 64, 4}, {"arrays-255", 1, 255, 4}, {"both-100x100", 100, 100, 4},
        {"string-1000", 1, 1, 1000}, {"string-65000", 1, 1, 65000},
        {"envelope-1", -1, 1, 0}, {"envelope-8", -8, 1, 0}, {"envelope-60", -60, 1, 0},
        {"wide-7", 0, 7, 0}, {"wide-700", 0, 700, 0}, {"wide-7000", 0, 7000, 0}};      // objs == 0: flat object with `arrs` fields
    std::vector<Meas> ms(vs.size());
    std::vector<size_t> docsz(vs.size());
    on_big_stack([&] {
        for (size_t i = 0; i < vs.size(); i++) {
            Bytes d = vs[i].objs < 0 ? envelope_doc(-vs[i].objs) : vs[i].objs == 0 ? wide_doc(vs[i].arrs) : nested_doc(vs[i].objs, vs[i].arrs, vs[i].slen);
            int dep = vs[i].objs < 0 ? 10 : vs[i].objs == 0 ? 3 : vs[i].objs;     // envelopes: spare state levels, as an application using the default depth has
            docsz[i] = d.size();
            measure_doc(d, dep, ms[i]);      // warm-up pass (lazy binding, libc one-time initialisation)
            ms[i] = Meas();
            measure_doc(d, dep, ms[i]);
        }
    });
    std::vector<size_t> pay = {4, 1000, 65000};
    std::vector<Meas> wm(pay.size());
    on_big_stack([&] { for (size_t i = 0; i < pay.size(); i++) { measure_writer(pay[i], wm[i]); wm[i] = Meas(); measure_writer(pay[i], wm[i]); } });
    int violations = 0; size_t comparisons = 0, functions = 0;
    std::string j = "{\n  \"paint_bytes\": " + std::to_string(PAINT) + ",\n  \"parser\": {";
    const Meas &base = ms[0];
    std::vector<std::string> fails;
    bool first = true;
    for (auto &kv : base.hw) {
        functions++;
        bool printing = kv.first.find("print") != std::string::npos || kv.first.find("to_string") != std::string::npos;
        size_t tol = printing ? 256 : 64, cap = printing ? 48 * 1024 : 4096;
        if (!first) j += ","; first = false;
        j += "\n    \"" + kv.first + "\": {";
        for (size_t i = 0; i < vs.size(); i++) {
            size_t v = ms[i].hw.count(kv.first) ? ms[i].hw.at(kv.first) : 0;
            j += fmt("%s\"%s\": %zu", i ? ", " : "", vs[i].name.c_str(), v);
            comparisons++;
            size_t ref = kv.second; size_t refi = 0;
            if (vs[i].objs < 0) refi = vs.size() - 6;          // envelopes are compared with envelope-1 (same kinds of leaves)
            else if (vs[i].objs == 0) refi = vs.size() - 3;    // wide objects with wide-7
            if (refi) ref = ms[refi].hw.count(kv.first) ? ms[refi].hw.at(kv.first) : 0;
            if (v > ref + tol) { violations++; fails.push_back(fmt("%s uses %zu bytes of stack on %s (%zu-byte document) but %zu on %s: grows with the input", kv.first.c_str(), v, vs[i].name.c_str(), docsz[i], ref, vs[refi].name.c_str())); }
            if (v > cap) { violations++; fails.push_back(fmt("%s uses %zu bytes of stack on %s (absolute cap %zu)", kv.first.c_str(), v, vs[i].name.c_str(), cap)); }
        }
        j += "}";
    }
    j += "\n  },\n  \"writer\": {";
    first = true;
    for (auto &kv : wm[0].hw) {
        functions++;
        if (!first) j += ","; first = false;
        j += "\n    \"" + kv.first + "\": {";
        for (size_t i = 0; i < pay.size(); i++) {
            size_t v = wm[i].hw.count(kv.first) ? wm[i].hw.at(kv.first) : 0;
            j += fmt("%s\"payload-%zu\": %zu", i ? ", " : "", pay[i], v);
            comparisons++;
            size_t tol = kv.first == "binson_writer_verify" ? 128 : 64;
            size_t ref = kv.second;
            if (v > ref + tol) { violations++; fails.push_back(fmt("%s uses %zu bytes of stack with a %zu-byte payload but %zu with %zu bytes", kv.first.c_str(), v, pay[i], kv.second, pay[0])); }
            if (v > 4096) { violations++; fails.push_back(fmt("%s uses %zu bytes of stack (absolute cap 4096)", kv.first.c_str(), v)); }
        }
        j += "}";
    }
    if (g_instr_build) {
        // recursion verdict of the instrumented build, over the whole workload above (both passes)
        uint64_t hits = g_recursion_hits.load();
        j += fmt("\n  },\n  \"recursion\": {\"instrumented_build\": true, \"reentries_of_an_active_library_function\": %llu", (unsigned long long)hits);
        if (hits) {
            violations++;
            Dl_info inner, outer; const char *in = "?", *on = "?";
            if (dladdr((void *)g_recursion_fn, &inner) && inner.dli_sname) in = inner.dli_sname;
            if (dladdr((void *)g_recursion_outer, &outer) && outer.dli_sname) on = outer.dli_sname;
            fails.insert(fails.begin(), fmt("recursion: library function %s (%p) was entered while already active, %llu times, under the public call %s", in, (void *)g_recursion_fn, (unsigned long long)hits, on));
        }
    }
    j += fmt("\n  },\n  \"functions_measured\": %zu,\n  \"comparisons\": %zu,\n  \"violations\": %d\n}\n", functions, comparisons, violations);
    if (!json_path.empty()) { FILE *f = fopen(json_path.c_str(), "w"); if (f) { fputs(j.c_str(), f); fclose(f); } }
    fprintf(g_out, "binsim footprint: %zu functions, %zu (function, document) comparisons, %d over the bound\n", functions, comparisons, violations);
    if (violations) {
        bool rec_fail = fails[0].compare(0, 10, "recursion:") == 0;
        const char *clause = rec_fail ? "C17.recursion" : "C17.stack.grows";
        std::string path = replay_dir + (g_instr_build ? "/C17-footprint-instr.plan" : "/C17-footprint.plan");
        std::string cmd = "mkdir -p '" + replay_dir + "'"; if (system(cmd.c_str()) != 0) {}
        std::string text = "binsim-plan 1\nengine footprint\nproperty C17\nseed 0\nindex 0\nroot object\nmax_depth 1\nprefill 0\nfaults -\ndoc -\nops -\n";
        for (auto &f : fails) text += "# " + f + "\n";
        text += std::string("expect ") + clause + " 0000000000000000\n";
        FILE *f = fopen(path.c_str(), "w"); if (f) { fputs(text.c_str(), f); fclose(f); }
        std::string sig = std::string(clause) + "|footprint|" + fails[0].substr(0, fails[0].find(' '));
        fprintf(g_out, "FAILURE property=C17 clause=%s replay=%s sig=%s detail=%s\n", clause, path.c_str(), to_hex((const uint8_t *)sig.data(), sig.size()).c_str(), json_escape(fails[0]).c_str());
    }
    fflush(g_out);
    return violations ? 1 : 0;
}
