// core.hpp - PRNG, hashing, hex, ops, plans, results. Everything a run needs is a pure
// function of a Plan; a Plan is a pure function of (VERIF_SEED, engine, property, index).
#pragma once
#include <cstdint>
#include <cstddef>
#include <cstring>
#include <string>
#include <vector>
#include <map>
#include <set>
#include <algorithm>

typedef std::vector<uint8_t> Bytes;

// ---------------------------------------------------------------- PRNG
static inline uint64_t splitmix64(uint64_t &s) {
    uint64_t z = (s += 0x9E3779B97F4A7C15ULL);
    z = (z ^ (z >> 30)) * 0xBF58476D1CE4E5B9ULL;
    z = (z ^ (z >> 27)) * 0x94D049BB133111EBULL;
    return z ^ (z >> 31);
}
static inline uint64_t mix64(uint64_t x) { uint64_t s = x; return splitmix64(s); }
static inline uint64_t fnv1a(const void *p, size_t n, uint64_t h = 0xcbf29ce484222325ULL) {
    const uint8_t *b = (const uint8_t *)p;
    for (size_t i = 0; i < n; i++) { h ^= b[i]; h *= 0x100000001b3ULL; }
    return h;
}
static inline uint64_t fnv_str(const std::string &s, uint64_t h = 0xcbf29ce484222325ULL) { return fnv1a(s.data(), s.size(), h); }

struct Rng {
    uint64_t s;
    explicit Rng(uint64_t seed = 1) : s(seed) {}
    uint64_t next() { return splitmix64(s); }
    // uniform in [0,n), n>0 (slight bias irrelevant here, but deterministic)
    uint64_t below(uint64_t n) { return n ? next() % n : 0; }
    int range(int lo, int hi) { return lo + (int)below((uint64_t)(hi - lo + 1)); }   // inclusive
    bool chance(unsigned num, unsigned den) { return below(den) < num; }
    // labelled sub-stream: independent of how many draws the parent makes later
    Rng fork(const char *label) const { return Rng(mix64(s ^ fnv_str(label))); }
};

// run seed: one integer decides everything
static inline uint64_t run_seed(uint64_t base, const std::string &engine, const std::string &prop, uint64_t index) {
    uint64_t s = base ^ fnv_str(engine) ^ (fnv_str(prop) * 31) ^ (index * 0x9E3779B97F4A7C15ULL);
    return mix64(s);
}

// ---------------------------------------------------------------- hex
static inline std::string to_hex(const uint8_t *p, size_t n) {
    static const char *d = "0123456789abcdef";
    std::string s; s.reserve(n * 2);
    for (size_t i = 0; i < n; i++) { s.push_back(d[p[i] >> 4]); s.push_back(d[p[i] & 15]); }
    return s;
}
static inline std::string to_hex(const Bytes &b) { return to_hex(b.data(), b.size()); }
static inline bool from_hex(const std::string &s, Bytes &out) {
    out.clear();
    if (s == "-") return true;
    if (s.size() % 2) return false;
    auto v = [](char c) -> int { if (c >= '0' && c <= '9') return c - '0'; if (c >= 'a' && c <= 'f') return c - 'a' + 10; if (c >= 'A' && c <= 'F') return c - 'A' + 10; return -1; };
    for (size_t i = 0; i < s.size(); i += 2) { int a = v(s[i]), b = v(s[i + 1]); if (a < 0 || b < 0) return false; out.push_back((uint8_t)(a * 16 + b)); }
    return true;
}

// ---------------------------------------------------------------- operations
// One global op vocabulary; each engine uses a subset. Text form: name[:a[:hex[:c]]]
enum OpCode : int {
    // real parser API (sloppy, reuse, interleave)
    P_INIT_OBJ, P_INIT_ARR, P_RESET, P_VERIFY, P_DEPTH, P_NEXT, P_NEXT_ENSURE, P_GET_TYPE,
    P_FIELD, P_FIELD_LEN, P_FIELD_ENS, P_FIELD_ENS_LEN, P_FIELD_NULL,
    P_ENTER_OBJ, P_LEAVE_OBJ, P_ENTER_ARR, P_LEAVE_ARR,
    P_GET_NAME, P_GET_STRING, P_GET_RAW, P_GET_INT, P_GET_BOOL, P_GET_DOUBLE, P_GET_BYTES,
    P_STR_EQ, P_PRINT, P_TO_STRING, P_TO_STRING_NULL, P_TO_WRITER,
    // harness-level operations on the media (faults)
    H_REWRITE,      // rewrite delivered buffer in place from doc2 (a = length)
    H_SCRIBBLE,     // PRNG garbage over struct (except state/max_depth) and state array, seed a
    H_ABANDON,      // marks the crash point (no call)
    // model-level navigation operations (nav): skipped when the reference cursor does not enable them
    M_ENTER, M_NEXT, M_LEAVE, M_OBSERVE, M_FIELD, M_FIELD_ENS, M_RAW, M_TO_WRITER, M_STREQ, M_RESTART,
    // writer API
    W_INIT, W_RESET, W_OBJ_BEGIN, W_OBJ_END, W_ARR_BEGIN, W_ARR_END, W_BOOL, W_INT, W_DOUBLE,
    W_STRING, W_STRING_LEN, W_NAME, W_BYTES, W_RAW, W_VERIFY, W_COUNTER, W_STRING_NULL, W_RAW_NULL, W_TO_WRITER,
    // traverse / cppwrap: raw strategy choice
    X_CHOICE,
    OP__COUNT
};
extern const char *const OP_NAMES[OP__COUNT];

struct Op {
    int code = 0;
    int64_t a = 0;      // numeric argument
    Bytes b;            // byte-string argument (name, string, payload)
    int64_t c = 0;      // second numeric argument (type for *_ENS, flags)
    bool operator==(const Op &o) const { return code == o.code && a == o.a && b == o.b && c == o.c; }
};
std::string op_to_text(const Op &o);
bool op_from_text(const std::string &s, Op &o);

// ---------------------------------------------------------------- plan
struct Plan {
    std::string engine, prop;
    uint64_t seed = 0, index = 0;
    int root = 0;               // 0 = object-rooted parser, 1 = array-rooted
    int max_depth = 10;
    uint64_t prefill = 0;       // seed of the garbage the parser struct / state array start with (0 = zeroed)
    Bytes doc, doc2;            // delivered bytes (after faults); doc2: second document (reuse) / raw source
    std::vector<Op> ops, ops2;  // phase A / phase B (reuse); ops2 unused elsewhere
    std::map<std::string, int64_t> par;     // engine parameters (capacity stride, restart kind, task count, ...)
    std::vector<std::string> faults;        // fault kinds applied while generating (informational + evidence)
    std::string note;           // tree notation etc. (comment only)
    std::vector<Plan> sub;      // per-task plans (interleave engine)
    std::string expect_clause;  // set on saved replay files
    uint64_t expect_hash = 0;
    int64_t P(const char *k, int64_t d = 0) const { auto it = par.find(k); return it == par.end() ? d : it->second; }
};
std::string plan_to_text(const Plan &p);
bool plan_from_text(const std::string &t, Plan &p, std::string &err);
uint64_t plan_digest(const Plan &p);     // over what execution depends on (not seed/index/note)

// ---------------------------------------------------------------- result of one run
struct Result {
    std::string clause;         // empty = all oracles held; otherwise "<prop>.<what>"
    std::string detail;
    uint64_t trace_hash = 0;    // digest of the whole event log
    uint64_t steps = 0;         // logical steps: API calls + token callbacks
    uint64_t calls = 0;
    bool nontrivial = false;
    bool invalid_plan = false;  // plan could not be interpreted (hand-edited file): never a violation
    std::map<std::string, uint64_t> cnt;    // probes, fault-fired counters, per-kind counters
    std::vector<uint32_t> transitions;      // model transitions touched (nav)
    std::vector<std::string> log;           // full event log text (only when ctx.verbose)
    std::vector<uint64_t> sub_hash;         // per-task / per-phase hashes (reuse, interleave)
    bool ok() const { return clause.empty(); }
};

struct ExecCtx {
    bool verbose = false;       // keep the text event log
    std::string prop;           // owning property: only its clauses are reported as failures
};

// An engine: generate is a pure function of (seed,index,tier); execute is a pure function of the plan.
struct Engine {
    const char *name;
    Plan (*generate)(uint64_t base_seed, const std::string &prop, uint64_t index, int tier);
    Result (*execute)(const Plan &, const ExecCtx &);
    // candidates one shrinking step away (beyond generic op deletion); may be null
    void (*shrink_candidates)(const Plan &, std::vector<Plan> &out);
    // attribution after minimisation: does the minimised plan still exercise what the plan's property is about? (null = always)
    bool (*owned)(const Plan &, const std::string &clause);
};
const Engine *find_engine(const std::string &name);
extern const Engine *const ALL_ENGINES[];

// helpers
static inline void bump(std::map<std::string, uint64_t> &m, const std::string &k, uint64_t n = 1) { m[k] += n; }
std::string fmt(const char *f, ...) __attribute__((format(printf, 1, 2)));
