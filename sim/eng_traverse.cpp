// eng_traverse.cpp - `traverse` engine (C08): in-transit corruption of valid documents x adaptive complete
// traversals driven only by the parser's own answers; verdict compared with binson_parser_verify on a fresh
// parser over the same bytes (both sides are real code). Also feeds the C16 monitors.
#include "session.hpp"
#include "model.hpp"
#include "engines.hpp"
#include "gen_common.hpp"

namespace {

static Op mk(int code, int64_t a = 0, const Bytes &b = Bytes(), int64_t c = 0) { Op o; o.code = code; o.a = a; o.b = b; o.c = c; return o; }

Plan traverse_generate(uint64_t base, const std::string &prop, uint64_t index, int tier) {
    Plan p; p.engine = "traverse"; p.prop = prop; p.index = index;
    p.seed = run_seed(base, "traverse", prop, index);
    Rng r(p.seed);
    Rng rd = r.fork("document"), rf = r.fork("faults"), ro = r.fork("operations");
    Node tree; bool valid; int need = 1;
    bool deep = false;
    if (rd.chance(4, 100)) { p.doc = deep_document(rd, p.root, p.faults, need); deep = true; }
    else { p.doc = gen_document(rd, tier, p.root, &tree, valid, p.faults, &need); p.note = tree_text(tree); }
    unsigned fc = (unsigned)rf.below(100);
    int nf = fc < 38 ? 0 : fc < 75 ? 1 : fc < 92 ? 2 : 3;
    Bytes other;
    if (nf) { int rk; bool v2; Node t2; std::vector<std::string> f2; Rng r2 = r.fork("other"); other = gen_document(r2, tier, rk, &t2, v2, f2, nullptr); }
    Bytes pristine = p.doc;
    apply_faults(rf, p.doc, nf, p.faults, &other);
    // a corrupted frame would only exercise the init rejection: keep the frame so that the traversal gets somewhere
    if (nf && p.doc.size() >= 2 && rf.chance(4, 5)) { p.doc[0] = p.root ? 0x42 : 0x40; p.doc.back() = p.root ? 0x43 : 0x41; }
    unsigned dm = (unsigned)rd.below(100);
    if (dm < 70) p.max_depth = std::min(255, need + (int)rd.below(3));
    else if (dm < 85) { p.max_depth = std::min(255, std::max(1, need - 1 - (int)rd.below(2))); if (p.max_depth < need) p.faults.push_back("F6:max_depth_below_nesting"); }
    else p.max_depth = 1 + (int)rd.below(40);
    p.prefill = rd.chance(1, 2) ? (rd.next() | 1) : 0;
    if (prop != "C16" && ro.chance(1, 5)) p.par["nocb"] = 1;
    if (prop == "C16" && r.fork("nocb").chance(1, 4)) p.par["nocb"] = 1;   // termination without a callback to count steps: decided by the CPU-time watchdog alone
    { Rng rl = r.fork("layout"); if (rl.chance(1, 2)) p.par["lead"] = 1 + (int64_t)rl.below(15); }     // the message does not start on an allocator boundary
    // fault then recovery: the damaged message is traversed first (until it fails or ends), the stored bytes are repaired in
    // place, the application restarts the parser and traverses again; the verdict of THAT traversal is compared with verify
    if (nf && !pristine.empty() && pristine.size() == p.doc.size() && pristine != p.doc && rf.chance(1, 3)) {
        p.doc2 = p.doc; p.doc = pristine; p.par["recover"] = 1 + (int64_t)rf.below(3); p.faults.push_back("F7:damaged_first_then_repaired");
    }
    // a "diver": every container met is entered (no skipping, no lookups, no early leave) until this many levels are open, so that
    // the adaptive part of the traversal happens at the bottom of a deep document, not only near its top
    { Rng rv = r.fork("dive"); if (deep ? rv.chance(1, 2) : rv.chance(1, 12)) p.par["dive"] = rv.chance(1, 2) ? 100000 : 1 + (int64_t)rv.below((uint64_t)std::max(1, need) + 4); }
    int nch = (int)ro.below(tier ? 300 : 150);
    for (int i = 0; i < nch; i++) p.ops.push_back(mk(X_CHOICE, (int64_t)ro.below(1000)));
    return p;
}

struct Walker {
    const Plan &p; PSession &ps; Result &r;
    size_t ci = 0;
    std::vector<int> stack;     // container kinds as told by the parser: 1 object, 3 array
    std::vector<Bytes> seen;    // names seen so far (lookup candidates)
    bool ok = true, done = false;
    uint64_t skipped = 0, failed_lookups = 0;
    int restart = 0;            // 0: init (first use); 1 reset; 2 verify then go on; 3 init again
    int64_t choice() { return ci < p.ops.size() ? p.ops[ci++].a : 0; }
    Outcome call(int code, int64_t a = 0, const Bytes &b = Bytes(), int64_t c = 0) { return ps.call(mk(code, a, b, c)); }

    void must(const Outcome &o, const char *what) { if (!o.ret) { ok = false; bump(r.cnt, std::string("traverse.failed.") + what); } }

    size_t deepest = 0;
    bool diving() { if (stack.size() > deepest) deepest = stack.size(); return (int64_t)deepest < p.P("dive") && dived_ok; }
    bool dived_ok = true;
    void on_value() {
        // positioned on a value the parser just returned
        Outcome t = call(P_GET_TYPE);
        if (stack.back() == 1) { Outcome n = call(P_GET_NAME); if (n.ret && n.span_off >= 0 && n.span_len <= 8) { Bytes nm(p.doc.begin() + n.span_off, p.doc.begin() + n.span_off + (long)n.span_len); if (seen.size() < 32) seen.push_back(nm); } }
        if (t.type == 1 || t.type == 3) {
            int64_t c = choice() % 10;
            if (diving()) c = 5;
            if (c < 4) { skipped++; bump(r.cnt, "traverse.skip"); }                      // skip: the next call walks over it
            else if (c < 8) { Outcome e = call(t.type == 1 ? P_ENTER_OBJ : P_ENTER_ARR); must(e, "enter"); if (e.ret) stack.push_back(t.type); }
            else if (c < 9) { Outcome g = call(P_GET_RAW); must(g, "get_raw"); skipped++; bump(r.cnt, "traverse.get_raw"); }
            else { Outcome g = call(P_TO_WRITER, (int64_t)p.doc.size() + 8); must(g, "to_writer"); skipped++; bump(r.cnt, "traverse.to_writer"); }
        } else if (choice() % 4 == 0) {
            call(P_GET_INT); call(P_GET_STRING); call(P_GET_BYTES); call(P_GET_DOUBLE); call(P_GET_BOOL);
        }
    }

    void leave() {
        dived_ok = false;       // the bottom was reached (or the dive target): from here on the traversal is adaptive again
        Outcome l = call(stack.back() == 1 ? P_LEAVE_OBJ : P_LEAVE_ARR);
        must(l, "leave");
        stack.pop_back();
        if (stack.empty()) done = true;
    }

    void run() {
        Outcome i;
        if (restart == 1) i = call(P_RESET);
        else if (restart == 2) { i = call(P_VERIFY); }      // a successful verify leaves the cursor at the start
        else i = call(p.root ? P_INIT_ARR : P_INIT_OBJ, -1);
        if (!i.ret) { ok = false; bump(r.cnt, restart ? "traverse.restart_rejected" : "traverse.init_rejected"); return; }
        Outcome e = call(p.root ? P_ENTER_ARR : P_ENTER_OBJ);
        must(e, "enter_root");
        if (!ok) return;
        stack.push_back(p.root ? 3 : 1);
        size_t cap = 6 * p.doc.size() + p.ops.size() + 64, steps = 0;
        while (ok && !done && !ps.dead) {
            if (++steps > cap) { ps.sink.fail("C16.traverse.no_progress", fmt("a protocol-following traversal of %zu bytes did not finish within %zu steps", p.doc.size(), cap)); ok = false; break; }
            int64_t c = choice() % 100;
            if (diving()) c = 0;
            if (stack.back() == 1 && c >= 70 && c < 92) {
                Bytes nm;
                if (!seen.empty() && c < 84) { nm = seen[(size_t)(choice() % (int64_t)seen.size())]; if (c >= 80) nm.push_back('a'); }
                else { size_t n = (size_t)(choice() % 3); for (size_t k = 0; k < n; k++) nm.push_back((uint8_t)("ab\x7f\x80\xff"[choice() % 5])); }
                Outcome f = call(P_FIELD_LEN, 0, nm);
                bump(r.cnt, f.ret ? "traverse.lookup_hit" : "traverse.lookup_miss");
                if (f.ret) on_value(); else failed_lookups++;
            } else if (c >= 92 && c < 97) { bump(r.cnt, "traverse.early_leave"); skipped++; leave(); }
            else {
                Outcome n = call(P_NEXT);
                if (n.ret) on_value(); else leave();
            }
        }
    }
};

Result traverse_execute(const Plan &p, const ExecCtx &c) {
    Result r;
    Trace tr; tr.verbose = c.verbose;
    Sink sink; sink.own = c.prop; sink.cnt = &r.cnt;
    bool verify_ok;
    uint64_t vsteps = 0;
    {   // the reference verdict: real verify on a fresh parser over the same bytes, same max_depth
        Trace t2; Sink s2; s2.own = c.prop; s2.cnt = &r.cnt;     // C16 monitors apply here too
        PSession q(t2, s2, r.cnt);
        q.setup(p.max_depth, 0, p.doc, p.root != 0);
        Outcome a = q.call(mk(p.root ? P_INIT_ARR : P_INIT_OBJ, -1));
        Outcome b = a.ret ? q.call(mk(P_VERIFY)) : Outcome();
        verify_ok = a.ret && b.ret;
        vsteps = q.steps;
        if (s2.failed()) sink.fail(s2.clause, s2.detail);
        tr.add(fmt("VERIFY(fresh) -> %d e=%s", verify_ok, err_name(b.err)));
    }
    PSession ps(tr, sink, r.cnt);
    ps.lead = (int)p.P("lead");
    ps.setup(p.max_depth, p.prefill, p.P("recover") ? p.doc2 : p.doc, p.root != 0);
    ps.guard_lookups = false;       // lookups are only issued while the traversal is inside an object
    ps.use_cb = !p.P("nocb");
    Walker w{p, ps, r, 0, {}, {}, true, false, 0, 0, 0};
    if (p.P("recover")) {
        Walker w1{p, ps, r, 0, {}, {}, true, false, 0, 0, 0};
        w1.run();                                   // first pass over the damaged message: whatever happens, happens
        tr.add(fmt("FIRST PASS (damaged) -> ok=%d done=%d e=%s", w1.ok, w1.done, err_name(ps.inited ? ps.err() : 0)));
        w.ci = w1.ci;
        ps.src = p.doc;
        if (ps.inited && ps.bblk.n == p.doc.size()) {
            ps.rewrite(p.doc);
            w.restart = (int)p.P("recover");        // 1 reset, 2 verify first, 3 init again
        } else w.restart = 3;
        bump(r.cnt, "traverse.recovered_runs");
    }
    w.run();
    bool traversal_ok = w.ok && w.done && ps.err() == 0 && !ps.dead;
    tr.add(fmt("TRAVERSAL -> ok=%d done=%d e=%s", w.ok, w.done, err_name(ps.err())));
    if (!ps.dead && !sink.failed() && traversal_ok != verify_ok) {
        if (traversal_ok) sink.fail("C08.mismatch.traversal_accepts_verify_rejects", "the traversal finished with every call successful and no error, but verify rejects the same bytes");
        else sink.fail("C08.mismatch.traversal_fails_verify_accepts", fmt("verify accepts the bytes but the traversal did not finish cleanly (ok=%d done=%d err=%s)", w.ok, w.done, err_name(ps.err())));
    }
    if (traversal_ok && !p.P("recover") && ps.total_cb > p.doc.size() + ps.calls) sink.fail("C16.linear.total", fmt("a complete traversal of %zu bytes made %llu token callbacks in %llu calls", p.doc.size(), (unsigned long long)ps.total_cb, (unsigned long long)ps.calls));
    ps.end_checks();
    bump(r.cnt, verify_ok ? "traverse.valid_delivery" : "traverse.invalid_delivery");
    r.clause = sink.clause; r.detail = sink.detail;
    r.trace_hash = tr.h; r.steps = ps.steps + vsteps; r.calls = ps.calls;
    r.cnt["c16.max_slack"] = ps.max_slack;
    if (p.prop == "C16") r.nontrivial = ps.total_cb >= 3; else r.nontrivial = w.skipped > 0;
    if (c.verbose) r.log = tr.log;
    return r;
}

void traverse_shrink(const Plan &p, std::vector<Plan> &out) {
    size_t n = p.doc.size();
    for (size_t chunk = n / 2; chunk >= 1; chunk /= 2) {
        for (size_t st = 0; st + chunk <= n && out.size() < 200; st += chunk) { Plan q = p; q.doc.erase(q.doc.begin() + (long)st, q.doc.begin() + (long)(st + chunk)); q.note.clear(); out.push_back(q); }
        if (chunk == 1) break;
    }
    if (p.max_depth > 1) { Plan q = p; q.max_depth--; out.push_back(q); }
    if (p.prefill) { Plan q = p; q.prefill = 0; out.push_back(q); }
}

} // namespace

extern const Engine ENGINE_TRAVERSE = {"traverse", traverse_generate, traverse_execute, traverse_shrink, nullptr};
