// eng_cppwrap.cpp - `cppwrap` engine (C15): the C++ Binson class under allocation failure (F9) and
// corrupted input. The k-th operator new inside an operation throws for EVERY k (fault enumeration);
// fault-free configuration is checked separately so that the relaxation hides no ordinary bug.
#include "session.hpp"
#include "model.hpp"
#include "engines.hpp"
#include "gen_common.hpp"
#include <binson.hpp>
#include <atomic>
#include <new>
#include <cstdlib>

// ---------------------------------------------------------------- the allocator seam: global operator new
static std::atomic<long> g_live(0);
static thread_local bool g_arm = false;
static thread_local uint64_t g_alloc_n = 0, g_fail_at = 0;
static thread_local uint64_t g_fired = 0;

void *operator new(size_t n) {
    if (g_arm) { g_alloc_n++; if (g_fail_at && g_alloc_n == g_fail_at) { g_fired++; throw std::bad_alloc(); } }
    void *p = malloc(n ? n : 1);
    if (!p) throw std::bad_alloc();
    g_live++;
    return p;
}
void *operator new[](size_t n) { return operator new(n); }
void operator delete(void *p) noexcept { if (p) { g_live--; free(p); } }
void operator delete[](void *p) noexcept { operator delete(p); }
void operator delete(void *p, size_t) noexcept { operator delete(p); }
void operator delete[](void *p, size_t) noexcept { operator delete(p); }

namespace {

static Op mk(int code, int64_t a = 0, const Bytes &b = Bytes(), int64_t c = 0) { Op o; o.code = code; o.a = a; o.b = b; o.c = c; return o; }

// ---------------------------------------------------------------- model <-> class
static BinsonValue to_bv(const Node &n, uint64_t order_seed);
static void build(Binson &b, const Node &obj, uint64_t order_seed) {
    std::vector<size_t> idx(obj.kids.size());
    for (size_t i = 0; i < idx.size(); i++) idx[i] = i;
    Rng r(order_seed | 1);
    for (size_t i = idx.size(); i > 1; i--) std::swap(idx[i - 1], idx[r.below(i)]);       // insertion order shuffled
    for (size_t i : idx) {
        const Node &k = obj.kids[i];
        std::string key((const char *)k.name.data(), k.name.size());
        if (k.t == V_OBJ && (order_seed & 2)) { Binson o; build(o, k, order_seed * 3 + i); b.put(key, o); }
        else if (k.t == V_BYTES && (order_seed & 4)) b.put(key, k.s.data(), k.s.size());
        else b.put(key, to_bv(k, order_seed * 5 + i));
    }
}
static BinsonValue to_bv(const Node &n, uint64_t order_seed) {
    // every public way of making a value is used: copy / move constructors, the int and const char* conveniences, and the
    // assignment operators on a default-constructed (or previously differently typed) value
    unsigned how = (unsigned)(mix64(order_seed ^ 0x5eed) % 4);
    switch (n.t) {
        case V_OBJ: {
            Binson o; build(o, n, order_seed);
            if (how == 0) return BinsonValue(o);
            if (how == 1) return BinsonValue(std::move(o));
            BinsonValue x(how == 2 ? BinsonValue() : BinsonValue((int64_t)5)); x = std::move(o); return x;
        }
        case V_ARR: {
            std::vector<BinsonValue> v; for (size_t i = 0; i < n.kids.size(); i++) v.push_back(to_bv(n.kids[i], order_seed * 7 + i));
            if (how == 0) return BinsonValue(v);
            if (how == 1) return BinsonValue(std::move(v));
            BinsonValue x(how == 2 ? BinsonValue() : BinsonValue(true)); x = std::move(v); return x;
        }
        case V_BOOL: { if (how < 2) return BinsonValue(n.b); BinsonValue x(how == 2 ? BinsonValue() : BinsonValue("s")); bool b = n.b; x = std::move(b); return x; }
        case V_INT: {
            bool small = n.i >= INT32_MIN && n.i <= INT32_MAX;
            if (how == 0) return BinsonValue((int64_t)n.i);
            if (how == 1) { if (small) return BinsonValue((int)n.i); return BinsonValue((int64_t)n.i); }
            BinsonValue x(how == 2 ? BinsonValue() : BinsonValue(1.5));
            if (small && (order_seed & 16)) { int v = (int)n.i; x = std::move(v); } else { int64_t v = n.i; x = std::move(v); }
            return x;
        }
        case V_DBL: { double d; memcpy(&d, &n.d, 8); if (how < 2) return BinsonValue(d); BinsonValue x(how == 2 ? BinsonValue() : BinsonValue((int64_t)9)); x = std::move(d); return x; }
        case V_STR: {
            std::string s((const char *)n.s.data(), n.s.size());
            if (how == 0) return BinsonValue(std::string(s));
            if (how == 1) { const std::string &cs = s; return BinsonValue(cs); }
            if (how == 2 && s.find('\0') == std::string::npos) return BinsonValue(s.c_str());
            BinsonValue x(how == 2 ? BinsonValue() : BinsonValue(false)); x = std::move(s); return x;
        }
        default: {
            std::vector<uint8_t> v(n.s.begin(), n.s.end());
            if (how == 0) return BinsonValue(std::vector<uint8_t>(v));
            if (how == 1) { const std::vector<uint8_t> &cv = v; return BinsonValue(cv); }
            BinsonValue x(how == 2 ? BinsonValue() : BinsonValue("t")); x = std::move(v); return x;
        }
    }
}
static bool equal_bv(const BinsonValue &v, const Node &n);
static bool equal_obj(const Binson &b, const Node &n) {
    size_t cnt = 0;
    for (auto it = b.begin(); it != b.end(); ++it) cnt++;
    if (cnt != n.kids.size()) return false;
    auto it = b.begin();
    for (size_t i = 0; i < n.kids.size(); i++, ++it) {
        const Node &k = n.kids[i];
        std::string key((const char *)k.name.data(), k.name.size());
        if (it->first != key) return false;                 // iteration order == bytewise ascending
        if (!b.hasKey(key)) return false;
        if (!equal_bv(b.get(key), k)) return false;
    }
    {   // a key that is not there: hasKey says so, get() throws a std::exception (and nothing else)
        std::string absent = n.kids.empty() ? std::string("x") : std::string((const char *)n.kids.back().name.data(), n.kids.back().name.size()) + std::string(1, '\x01');
        for (auto &k : n.kids) if (std::string((const char *)k.name.data(), k.name.size()) == absent) return true;
        if (b.hasKey(absent)) return false;
        try { (void)b.get(absent); return false; } catch (const std::exception &) {}
    }
    return true;
}
static bool equal_bv(const BinsonValue &v, const Node &n) {
    typedef BinsonValue::Types T;
    switch (n.t) {
        case V_OBJ: return v.myType() == T::objectType && equal_obj(v.getObject(), n);
        case V_ARR: { if (v.myType() != T::arrayType) return false; const std::vector<BinsonValue> &a = v.getArray(); if (a.size() != n.kids.size()) return false; for (size_t i = 0; i < a.size(); i++) if (!equal_bv(a[i], n.kids[i])) return false; return true; }
        case V_BOOL: return v.myType() == T::boolType && v.getBool() == n.b;
        case V_INT: return v.myType() == T::intType && v.getInt() == n.i;
        case V_DBL: { if (v.myType() != T::doubleType) return false; double d = v.getDouble(); uint64_t bits; memcpy(&bits, &d, 8); return bits == n.d; }
        case V_STR: return v.myType() == T::stringType && v.getString() == std::string((const char *)n.s.data(), n.s.size());
        default: return v.myType() == T::binaryType && v.getBin() == std::vector<uint8_t>(n.s.begin(), n.s.end());
    }
}

// ---------------------------------------------------------------- one operation; everything allocated inside is gone at return
struct Case { int op; int ovl; const Node *tree; const Bytes *ref; const Bytes *bytes; bool verify_ok; uint64_t order_seed; int max_depth; int pre; const Node *tree2; const Bytes *ref2; const Bytes *bytes2; };
struct Status { int outcome = 0; bool correct = true; bool recovered = true; char detail[200] = {0}; uint64_t allocs = 0; };
enum { OUT_NORMAL = 0, OUT_STDEXC = 1, OUT_BADALLOC = 2, OUT_OTHER = 3 };

static void note(Status &st, const char *msg) { if (!st.detail[0]) { strncpy(st.detail, msg, sizeof st.detail - 1); } st.correct = false; }

static void deser(Binson &d, int ovl, const Bytes &bytes, int max_depth, int pre = 0) {
    static const uint8_t dummy = 0;
    const uint8_t *ptr = bytes.empty() ? &dummy : bytes.data();
    if (ovl == 0) { std::vector<uint8_t> v(bytes.begin(), bytes.end()); d.deserialize(v); }
    else if (ovl == 1) d.deserialize(ptr, bytes.size());
    else {
        (void)max_depth;
        binson_state st[BINSON_PARSER_DEFAULT_DEPTH];
        binson_parser p;
        memset(&p, 0, sizeof p); p.max_depth = BINSON_PARSER_DEFAULT_DEPTH; p.state = st;
        binson_parser_init(&p, ptr, bytes.size());           // result deliberately ignored: the overload must cope (it resets)
        // the caller's parser may have been used before: the overload documents a reset, so none of this may matter
        switch (pre) {
            case 1: binson_parser_get_name(&p); break;                                           // failed call that consumed nothing (STATE latched)
            case 2: binson_parser_field_with_length(&p, nullptr, 1); break;                      // NULL error latched at the start
            case 3: binson_parser_go_into_object(&p); binson_parser_next(&p); binson_parser_next(&p); break;   // abandoned traversal
            case 4: binson_parser_verify(&p); break;
            case 5: binson_parser_go_into_object(&p); binson_parser_next_ensure(&p, BINSON_TYPE_NONE); break;  // WRONG_TYPE (or the document's own error) latched inside
            default: break;
        }
        d.deserialize(&p);
    }
}

static void body(const Case &cs, Status &st, uint64_t fail_at) {
    Binson b, d;
    g_alloc_n = 0; g_fail_at = fail_at; g_arm = true;
    try {
        if (cs.op == 0) {
            build(b, *cs.tree, cs.order_seed);
            std::vector<uint8_t> ser = b.serialize();
            if (ser.size() != cs.ref->size() || (ser.size() && memcmp(ser.data(), cs.ref->data(), ser.size()) != 0)) note(st, "serialize() differs from the canonical encoding");
            deser(d, cs.ovl, *cs.ref, cs.max_depth, cs.pre);
            if (!equal_obj(d, *cs.tree)) note(st, "deserialize(serialize(x)) != x");
        } else if (cs.op == 1) {
            deser(d, cs.ovl, *cs.bytes, cs.max_depth, cs.pre);
            std::vector<uint8_t> ser = d.serialize();
            if (ser.size() != cs.bytes->size() || (ser.size() && memcmp(ser.data(), cs.bytes->data(), ser.size()) != 0)) note(st, "serialize(deserialize(bytes)) != bytes");
        } else if (cs.op == 5) {
            // an update is rejected (damaged bytes) and a rollback guard restores the last good document from its destructor,
            // i.e. while the exception of the rejected update is still in flight
            deser(d, cs.ovl, *cs.ref, cs.max_depth, 0);
            struct Rollback { Binson &b; const Bytes &good; int ovl; ~Rollback() { try { deser(b, ovl, good, 10, 0); } catch (...) {} } };
            bool threw = false;
            try { Rollback guard{d, *cs.ref, cs.ovl}; deser(d, (cs.ovl + 1) % 3, *cs.bytes2, cs.max_depth, 0); }
            catch (const std::exception &) { threw = true; }
            if (!equal_obj(d, *cs.tree)) note(st, threw ? "a document restored from a destructor during stack unwinding is not what deserialize was given" : "rollback after an accepted update is wrong");
        } else if (cs.op == 4) {
            // the same object is used for several operations: serialize, change it through one of the put overloads, serialize again
            build(b, *cs.tree, cs.order_seed);
            std::vector<uint8_t> s1 = b.serialize();
            if (s1.size() != cs.ref->size() || (s1.size() && memcmp(s1.data(), cs.ref->data(), s1.size()) != 0)) note(st, "serialize() differs from the canonical encoding");
            std::string key = "~mut";
            switch (cs.order_seed % 4) {
                case 3: b.put(key, b); break;                                     // the argument is the receiver itself
                case 0: b.put(key, BinsonValue((int64_t)77)); break;
                case 1: { Binson inner; inner.put("k", BinsonValue(true)); b.put(key, inner); break; }
                default: { static const uint8_t blob[3] = {1, 2, 3}; b.put(key, blob, sizeof blob); break; }
            }
            if (cs.order_seed & 8) b.put(key, BinsonValue((int64_t)78));      // overwrite an existing key
            std::vector<uint8_t> s2 = b.serialize();
            if (s2.size() != cs.ref2->size() || (s2.size() && memcmp(s2.data(), cs.ref2->data(), s2.size()) != 0)) note(st, "serialize() after a further put() is not the encoding of the changed object");
            std::vector<uint8_t> wbuf(cs.ref2->size() + 16);
            binson_writer w; binson_writer_init(&w, wbuf.data(), wbuf.size());
            b.serialize(&w);
            if (binson_writer_get_counter(&w) != cs.ref2->size() || memcmp(wbuf.data(), cs.ref2->data(), cs.ref2->size()) != 0) note(st, "serialize(binson_writer*) differs from the encoding of the changed object");
            d.put("stale-key", BinsonValue(true));                           // deserialize must replace, not merge
            deser(d, cs.ovl, *cs.ref2, cs.max_depth, cs.pre);
            if (!equal_obj(d, *cs.tree2)) note(st, "deserialize into a used object did not give exactly the document");
        } else if (cs.op == 3) {
            // toStr(): exercised for crashes, leaks and non-std exceptions only (the text itself is C14's business)
            build(b, *cs.tree, cs.order_seed);
            std::string t = b.toStr();
            (void)t;
        } else {
            deser(d, cs.ovl, *cs.bytes, cs.max_depth, cs.pre);
        }
        st.outcome = OUT_NORMAL;
    } catch (const std::bad_alloc &) { st.outcome = OUT_BADALLOC; }
    catch (const std::exception &) { st.outcome = OUT_STDEXC; }
    catch (...) { st.outcome = OUT_OTHER; }
    g_arm = false;
    st.allocs = g_alloc_n;
    g_fail_at = 0;
    // after any outcome the objects must still be usable: clear() + a valid deserialize must work
    if (cs.ref && !cs.ref->empty() && cs.verify_ok) {       // (a tree beyond the wrapper's depth limit cannot be read back: nothing to recover to)
        try { d.clear(); d.deserialize(cs.ref->data(), cs.ref->size()); if (cs.tree && !equal_obj(d, *cs.tree)) st.recovered = false; b.clear(); }
        catch (...) { st.recovered = false; }
    }
}

Plan cppwrap_generate(uint64_t base, const std::string &prop, uint64_t index, int tier) {
    Plan p; p.engine = "cppwrap"; p.prop = prop; p.index = index;
    p.seed = run_seed(base, "cppwrap", prop, index);
    Rng r(p.seed);
    Rng rd = r.fork("document"), rf = r.fork("faults"), ro = r.fork("operations");
    GenKnobs k;
    unsigned cls = (unsigned)rd.below(100);
    k.max_nodes = cls < 40 ? 1 + (int)rd.below(6) : cls < 90 ? 4 + (int)rd.below(20) : 20 + (int)rd.below(tier ? 120 : 40);
    k.alphabet = (int)rd.below(3);
    k.long_strings = rd.chance(1, 4) ? 1 + (int)rd.below(2) : 0;       // documents above the 1000-byte first-try buffer
    if (rd.chance(1, 8)) { k.max_kids = 12; k.alphabet = 1; }          // wide objects: many keys, also well above 1000 bytes
    k.max_obj_depth = 1 + (int)rd.below(10);                            // wrapper depth limit is 10
    bool deep_objects = rd.chance(1, 30);                                // beyond the limit: only toStr() is defined to cope (it returns an empty string)
    if (deep_objects) { k.max_obj_depth = 11 + (int)rd.below(4); k.p_container = 90; k.p_empty = 0; k.max_nodes = 40; }
    k.max_arr_depth = 1 + (int)rd.below(6);
    k.p_container = 20 + (int)rd.below(40);
    p.root = 0;
    { Rng rl = rd.fork("layout"); if (rl.chance(1, 3)) pick_name_family(rl, k); }
    Node t = gen_tree(rd, k, false);
    if (rd.chance(1, tier ? 40 : 150)) {
        // many fields in one object: counts (and quantities derived from them) beyond narrow counters
        uint64_t cnt; unsigned w = (unsigned)rd.below(4);
        if (w == 0) cnt = 250 + rd.below(12); else if (w == 1) cnt = 1000 + rd.below(40); else if (w == 2) cnt = 4050 + rd.below(70); else cnt = 20 + rd.below(3000);
        t.kids.clear();
        for (uint64_t i = 0; i < cnt; i++) { Node c; c.t = V_INT; c.i = (int64_t)i; c.name = Bytes{(uint8_t)('a' + i / 17576 % 26), (uint8_t)('a' + i / 676 % 26), (uint8_t)('a' + i / 26 % 26), (uint8_t)('a' + i % 26)}; t.kids.push_back(c); }
        p.faults.push_back(fmt("shape:fields=%llu", (unsigned long long)cnt));
    }
    if (rd.chance(1, 25)) {
        // arrays do not count against the wrapper's object-depth limit of 10: up to 255 of them may nest per object level
        static const int N[] = {12, 40, 79, 80, 81, 120, 200, 254, 255};
        int depth = N[rd.below(9)];
        Node holder; holder.t = V_ARR; holder.name = Bytes{'n', 'e', 's', 't'};
        Node *cur = &holder;
        for (int i = 1; i < depth; i++) { Node c; c.t = V_ARR; cur->kids.push_back(c); cur = &cur->kids.back(); }
        Node leaf; leaf.t = V_INT; leaf.i = depth; cur->kids.push_back(leaf);
        if (rd.chance(1, 2)) { Node o; o.t = V_OBJ; if (rd.chance(1, 2)) { Node v; v.t = V_BOOL; v.b = true; v.name = Bytes{'k'}; o.kids.push_back(v); } cur->kids.push_back(o); }   // an object as element of the innermost array
        bool dup = false; for (auto &kid : t.kids) if (kid.name == holder.name) dup = true;
        if (!dup) { t.kids.push_back(holder); std::sort(t.kids.begin(), t.kids.end(), [](const Node &a, const Node &b) { return a.name < b.name; }); p.faults.push_back(fmt("shape:arrays=%d", depth)); }
    }
    encode(t, p.doc);
    p.note = tree_text(t);
    p.max_depth = 10;
    unsigned o = (unsigned)ro.below(100);
    int op = o < 28 ? 0 : o < 38 ? 1 : o < 44 ? 3 : o < 56 ? 4 : o < 62 ? 5 : 2;
    if (deep_objects) { op = 3; p.faults.push_back("shape:objects_beyond_wrapper_depth"); }
    p.par["op"] = op;
    p.par["ovl"] = (int64_t)ro.below(3);
    p.par["order"] = (int64_t)(ro.next() >> 8);
    p.par["f9"] = (op != 2 && ro.chance(1, 2)) ? 1 : 0;
    p.par["only_k"] = 0;
    p.par["pre"] = ro.chance(1, 2) ? (int64_t)ro.below(6) : 0;      // overload 2 only: what the caller's parser was used for before
    if (op == 2) {
        unsigned m = (unsigned)rf.below(100);
        if (m < 6) { p.doc.clear(); p.faults.push_back("raw:empty"); }
        else if (m < 12) { p.doc.resize(1); p.faults.push_back("raw:len1"); }
        else if (m < 20) { p.doc.push_back(rf.chance(1, 2) ? 0x41 : (uint8_t)rf.below(256)); p.faults.push_back("F3:trailing"); }
        else if (m < 30) { /* valid bytes through the accept path */ }
        else { apply_faults(rf, p.doc, 1 + (int)rf.below(3), p.faults, nullptr); if (p.doc.size() >= 2 && rf.chance(3, 4)) { p.doc[0] = 0x40; p.doc.back() = 0x41; } }
        p.note.clear();
    }
    if (op == 5) { p.doc2 = p.doc; apply_faults(rf, p.doc2, 1 + (int)rf.below(2), p.faults, nullptr); if (p.doc2.size() >= 2) { p.doc2[0] = 0x40; p.doc2.back() = 0x41; } p.par["f9"] = 0; }
    if (p.par["f9"]) p.faults.push_back("F9:every_allocation");
    return p;
}

Result cppwrap_execute(const Plan &p, const ExecCtx &c) {
    Result r;
    Trace tr; tr.verbose = c.verbose;
    Sink sink; sink.own = c.prop; sink.cnt = &r.cnt;
    int op = (int)p.P("op"), ovl = (int)p.P("ovl");
    Node tree; Bytes ref; bool have_tree = false;
    if (op != 2) {
        if (!decode(p.doc, false, tree)) { r.invalid_plan = true; r.detail = "document does not decode"; return r; }
        Node t2 = tree; encode(t2, ref); have_tree = true;
        if (ref != p.doc) { r.invalid_plan = true; r.detail = "document is not canonical"; return r; }
    }
    bool verify_ok = false;
    {   // reference verdict at the wrapper's depth limit: real verify, fresh parser
        Trace t2; Sink s2; s2.own = "~"; std::map<std::string, uint64_t> c2;
        PSession q(t2, s2, c2);
        q.setup(10, 0, p.doc, false);
        Outcome a = q.call(mk(P_INIT_OBJ, -1));
        verify_ok = a.ret && q.call(mk(P_VERIFY)).ret;
        if (op != 2) {
            // a generated tree is valid by construction; whether it fits the wrapper's limit of 10 object levels is decided by the
            // MODEL. (Asking the real verify here once hid a seeded change: a valid document it wrongly rejected was taken for a
            // tree that is too deep and the plan was discarded.)
            bool fits = need_depth(tree, false) <= 10;
            if (fits && !verify_ok) { sink.fail("C15.verify_rejects_canonical", "binson_parser_verify (depth 10) rejects the canonical encoding of a tree within the wrapper's limits"); r.clause = sink.clause; r.detail = sink.detail; return r; }
            if (!fits && verify_ok) { sink.fail("C15.verify_accepts_too_deep", "binson_parser_verify with max_depth 10 accepts a document nested deeper than 10 objects"); r.clause = sink.clause; r.detail = sink.detail; return r; }
            if (op != 3 && !fits) { r.invalid_plan = true; r.detail = "generated tree exceeds the wrapper's depth limit"; return r; }
        }
    }
    Node tree2; Bytes ref2;
    if (op == 4) {      // reference for the changed object
        tree2 = tree;
        uint64_t os = (uint64_t)p.P("order");
        Node m; m.name = Bytes{'~', 'm', 'u', 't'};
        switch (os % 4) {
            case 3: { Bytes nm = m.name; m = tree; m.name = nm; break; }           // a copy of the object as it was before the put
            case 0: m.t = V_INT; m.i = 77; break;
            case 1: { m.t = V_OBJ; Node k; k.t = V_BOOL; k.b = true; k.name = Bytes{'k'}; m.kids.push_back(k); break; }
            default: m.t = V_BYTES; m.s = Bytes{1, 2, 3}; break;
        }
        if (os & 8) { Bytes nm = m.name; m = Node(); m.name = nm; m.t = V_INT; m.i = 78; }
        bool dup = false; for (auto &kid : tree2.kids) if (kid.name == m.name) dup = true;
        if (dup) { r.invalid_plan = true; r.detail = "key collision"; return r; }
        tree2.kids.push_back(m);
        std::sort(tree2.kids.begin(), tree2.kids.end(), [](const Node &a, const Node &b) { return a.name < b.name; });
        encode(tree2, ref2);
        if (need_depth(tree2, false) > 10) { r.invalid_plan = true; r.detail = "changed object exceeds the wrapper's depth limit"; return r; }
    }
    Case cs{op, ovl, have_tree ? &tree : nullptr, have_tree ? &ref : nullptr, &p.doc, verify_ok, (uint64_t)p.P("order"), 10, (int)p.P("pre"), &tree2, &ref2, &p.doc2};
    // ---- fault-free configuration
    long live0 = g_live.load();
    Status st;
    body(cs, st, 0);
    long live1 = g_live.load();
    tr.add(fmt("op=%d ovl=%d outcome=%d correct=%d verify=%d", op, ovl, st.outcome, st.correct, verify_ok));
    tr.note(fmt("allocations inside the operation: %llu", (unsigned long long)st.allocs));      // a property of the C++ compiler, not a result
    bump(r.cnt, fmt("cpp.op%d", op)); bump(r.cnt, fmt("cpp.overload%d", ovl));
    if (live1 != live0) sink.fail("C15.leak", fmt("%ld allocations made inside the operation were never freed", live1 - live0));
    if (st.outcome == OUT_OTHER) sink.fail("C15.non_std_exception", "something not derived from std::exception was thrown");
    if (op == 3) { /* toStr: only crash / leak / non-std exception count */ }
    else if (op != 2) {
        if (st.outcome != OUT_NORMAL) sink.fail("C15.roundtrip.threw", "an exception on a valid tree / document without any injected fault");
        else if (!st.correct) sink.fail("C15.roundtrip.wrong", st.detail);
    } else {
        bool returned = st.outcome == OUT_NORMAL;
        if (returned && !verify_ok) sink.fail("C15.accepts_invalid", fmt("deserialize overload %d returned normally for bytes that verify (depth 10) rejects", ovl));
        if (!returned && verify_ok) sink.fail("C15.rejects_valid", fmt("deserialize overload %d threw for bytes that verify (depth 10) accepts", ovl));
        bump(r.cnt, verify_ok ? "cpp.bytes_valid" : "cpp.bytes_invalid");
    }
    if (!st.recovered) sink.fail("C15.not_reusable", "clear() + deserialize of a valid document failed after the operation");
    uint64_t A = st.allocs, injected = 0;
    // ---- fault-injecting configuration: every allocation index (sampled above 300)
    if (p.P("f9") && !sink.failed()) {
        std::vector<uint64_t> ks;
        int64_t only = p.P("only_k");
        if (only > 0) ks.push_back((uint64_t)only);
        else if (A <= 300) for (uint64_t k = 1; k <= A; k++) ks.push_back(k);
        else if (A <= 3000) { Rng rk(p.seed ^ 0xF9); std::set<uint64_t> s; for (uint64_t k = 1; k <= 100; k++) s.insert(k); for (uint64_t k = A - 50; k <= A; k++) s.insert(k); for (int i = 0; i < 150; i++) s.insert(1 + rk.below(A)); ks.assign(s.begin(), s.end()); }
        else { Rng rk(p.seed ^ 0xF9); std::set<uint64_t> s; for (uint64_t k = 1; k <= 6; k++) s.insert(k); for (uint64_t k = A - 4; k <= A; k++) s.insert(k); for (int i = 0; i < 20; i++) s.insert(1 + rk.below(A)); ks.assign(s.begin(), s.end()); }     // very large operations: every run must stay far below the watchdog
        for (uint64_t k : ks) {
            if (sink.failed()) break;
            long l0 = g_live.load();
            Status s2;
            uint64_t fired0 = g_fired;
            body(cs, s2, k);
            long l1 = g_live.load();
            injected += g_fired - fired0;
            if (l1 != l0) sink.fail("C15.f9.leak", fmt("allocation %llu of %llu failing: %ld blocks were never freed", (unsigned long long)k, (unsigned long long)A, l1 - l0));
            if (s2.outcome == OUT_OTHER) sink.fail("C15.f9.non_std_exception", fmt("allocation %llu failing: a non-std exception escaped", (unsigned long long)k));
            if (s2.outcome == OUT_NORMAL && !s2.correct) sink.fail("C15.f9.wrong_data", fmt("allocation %llu failing: the operation completed with wrong data (%s)", (unsigned long long)k, s2.detail));
            if (!s2.recovered) sink.fail("C15.f9.not_reusable", fmt("allocation %llu failing: object unusable afterwards", (unsigned long long)k));
            tr.note(fmt("f9 k=%llu outcome=%d correct=%d", (unsigned long long)k, s2.outcome, s2.correct));
        }
        bump(r.cnt, "fault.F9", injected);
        bump(r.cnt, "cpp.f9_points", ks.size());
        if (A <= 300 && only <= 0) bump(r.cnt, "cpp.f9_axis_exhaustive_ops");
    }
    if (p.doc.size() > 1000) bump(r.cnt, "probe.document_over_1000_bytes");
    r.clause = sink.clause; r.detail = sink.detail;
    r.trace_hash = tr.h; r.steps = 1 + injected; r.calls = r.steps;
    r.nontrivial = op == 2 ? p.doc.size() >= 2 : count_nodes(tree) >= 3;
    if (c.verbose) r.log = tr.log;
    return r;
}

void cppwrap_shrink(const Plan &p, std::vector<Plan> &out) {
    if (p.P("f9") && p.P("only_k") == 0) for (int64_t k = 1; k <= 120; k++) { Plan q = p; q.par["only_k"] = k; out.push_back(q); }
    Node root;
    if (p.P("op") != 2 && decode(p.doc, false, root)) {
        for (size_t i = 0; i < root.kids.size(); i++) { Node t = root; t.kids.erase(t.kids.begin() + (long)i); Plan q = p; encode(t, q.doc); q.note = tree_text(t); out.push_back(q); }
        for (size_t i = 0; i < root.kids.size(); i++) {
            Node t = root; Node &k = t.kids[i];
            if (k.is_container() && !k.kids.empty()) { k.kids.pop_back(); Plan q = p; encode(t, q.doc); q.note = tree_text(t); out.push_back(q); }
            else if (k.s.size() > 1) { k.s.resize(k.s.size() / 2); Plan q = p; encode(t, q.doc); q.note = tree_text(t); out.push_back(q); }
        }
    } else {
        size_t n = p.doc.size();
        for (size_t chunk = n / 2; chunk >= 1; chunk /= 2) { for (size_t st = 0; st + chunk <= n && out.size() < 300; st += chunk) { Plan q = p; q.doc.erase(q.doc.begin() + (long)st, q.doc.begin() + (long)(st + chunk)); out.push_back(q); } if (chunk == 1) break; }
    }
    if (p.P("f9")) { Plan q = p; q.par["f9"] = 0; out.push_back(q); }
}

} // namespace

extern const Engine ENGINE_CPPWRAP = {"cppwrap", cppwrap_generate, cppwrap_execute, cppwrap_shrink, nullptr};
