// model.hpp - the reference model: Binson value tree, independent encoder (with spans and pieces),
// decoder for valid-by-construction documents, tolerant structural labeller, media faults.
#pragma once
#include "core.hpp"
#include <memory>

enum VType { V_OBJ, V_ARR, V_BOOL, V_INT, V_DBL, V_STR, V_BYTES };

struct Node {
    VType t = V_BOOL;
    Bytes name;                 // field name when child of an object
    std::vector<Node> kids;     // object: fields in ascending name order; array: elements
    bool b = false;
    int64_t i = 0;
    uint64_t d = 0;             // raw IEEE-754 bits
    Bytes s;                    // string / bytes payload
    // spans in the encoding (filled by encode())
    size_t name_tok = 0;        // offset of the name token (type byte)
    size_t name_off = 0, name_len = 0;   // name payload
    size_t tok = 0, tok_len = 0;         // value token (container: BEGIN..END inclusive)
    size_t pay_off = 0, pay_len = 0;     // string/bytes payload
    bool is_container() const { return t == V_OBJ || t == V_ARR; }
    size_t begin_off() const { return tok; }
    size_t end_off() const { return tok + tok_len - 1; }
};

struct GenKnobs {
    int max_nodes = 20;
    int max_obj_depth = 6;      // object nesting available below the root
    int max_arr_depth = 6;
    int alphabet = 0;           // 0: {00,'a','b',7f,80,ff}; 1: ascii letters; 2: any byte
    int long_strings = 0;       // 0 none, 1 around 127/128, 2 also around 32767/32768, 3 also around 65535/65536
    int p_container = 30;       // percent
    int p_empty = 25;           // percent of containers left empty
    bool names_nul = true;      // allow 0x00 in names
    int max_kids = 5;           // children per container: 1..max_kids
    Bytes stem; int stem_pct = 0;   // non-empty: this share of the names is stem (or a prefix of it) + a short tail (see pick_name_family)
    int wide = 0;               // > 0: one container of the document gets this many scalar children (counts beyond narrow counters)
};

// piece boundaries for the writer contract (C04)
struct Piece { size_t off, len; };

Node gen_tree(Rng &r, const GenKnobs &k, bool array_root);
void pick_name_family(Rng &r, GenKnobs &k);      // sets k.stem / k.stem_pct
void encode(Node &root, Bytes &out, std::vector<Piece> *pieces = nullptr);     // fills spans
bool decode(const Bytes &in, bool array_root, Node &root);                     // strict enough for valid docs; fills spans
std::string tree_text(const Node &n, int limit = 400);
int count_nodes(const Node &n);
int need_depth(const Node &root, bool array_root);      // parser max_depth needed to traverse everything
int arr_depth(const Node &n);

// encoding helpers shared with the writer oracle
void enc_int(Bytes &out, int64_t v);
void enc_len(Bytes &out, uint8_t base, size_t len);
int int_width(int64_t v);

// structural labels of the well-formed prefix: for every offset at which a token may start,
// the kind of container whose body contains it. 'o' object body, 'a' array body, 't' top (before
// root BEGIN / after root END), '?' beyond the well-formed prefix.
std::string label_offsets(const Bytes &doc, bool array_root);

// media faults F1..F4 (pure functions of rng)
std::string fault_apply(Rng &r, Bytes &doc, int kind, const Bytes *other = nullptr);
int64_t interesting_int(Rng &r);
uint64_t interesting_double(Rng &r);
Bytes gen_bytes(Rng &r, const GenKnobs &k, int maxlen);
