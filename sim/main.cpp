// main.cpp - binsim command line: check / replay / digest / gen
#include "runner.hpp"
#include "engines.hpp"
#include "session.hpp"
#include <cstdio>
#include <cstdlib>
#include <unistd.h>

// ---------------------------------------------------------------- sanitizer defaults: classify hits by exit status
extern "C" __attribute__((used, visibility("default"))) const char *__asan_default_options() {
    return "exitcode=77:detect_leaks=0:abort_on_error=0:allocator_may_return_null=1:detect_stack_use_after_return=0:handle_segv=1:quarantine_size_mb=8:thread_local_quarantine_size_kb=64:redzone=256";
}
extern "C" __attribute__((used, visibility("default"))) const char *__ubsan_default_options() { return "print_stacktrace=1:halt_on_error=1:exitcode=77"; }

// ---------------------------------------------------------------- stdout of the library: a sink owned by the harness
static ssize_t cookie_write(void *, const char *buf, size_t n) { if (g_capture) g_capture->append(buf, n); return (ssize_t)n; }
static FILE *g_real_out = nullptr;

const Engine *const ALL_ENGINES[] = {&ENGINE_NAV, &ENGINE_SLOPPY, &ENGINE_TRAVERSE, &ENGINE_CAPACITY, &ENGINE_TOSTRING, &ENGINE_REUSE, &ENGINE_CPPWRAP, &ENGINE_INTERLEAVE, nullptr};

const Engine *find_engine(const std::string &name) {
    for (size_t i = 0; ALL_ENGINES[i]; i++) if (name == ALL_ENGINES[i]->name) return ALL_ENGINES[i];
    return nullptr;
}

// ---------------------------------------------------------------- the checks
static const std::vector<std::string> REAL = {"src/binson_parser.c", "src/binson_writer.c", "include/*.h (struct layouts, macros)", "libc printf/snprintf/mem*"};
static const std::vector<std::string> SIMULATED = {"callers (tasks issuing API calls)", "byte media: exact-size heap blocks for input buffer, parser struct, state array, output buffers", "stdout sink (fopencookie)", "token-callback step counter", "reference model: value tree, encoder, cursor"};

static std::vector<CheckSpec> make_specs() {
    std::vector<CheckSpec> v;
    auto add = [&](const char *prop, const char *level, std::vector<Batch> q, std::vector<Batch> t, const char *rule, std::vector<std::string> assume) {
        CheckSpec s; s.prop = prop; s.level = level; s.quick = q; s.thorough = t; s.rule = rule; s.assumptions = assume; s.real_components = REAL; s.simulated_components = SIMULATED; v.push_back(s);
    };
    add("C06", "exploration", {{"nav", 400000}}, {{"nav", 6000000}},
        "each run: a seeded valid document (reference encoder) and a seeded history of up to 80 (thorough: 120) protocol-following enter/step/leave/observe/raw calls chosen among those the reference cursor enables; every call's result, get_depth, getters and (after leave/raw) the cursor are compared with the reference cursor. non-trivial = at least one container was skipped, left early or raw-extracted; distinct = distinct plan digests (document bytes + operations)",
        {"the reference cursor and encoder in /verif/sim/model.cpp + eng_nav.cpp are correct (small, independent of the library)", "sampling: a clean batch is evidence, not proof"});
    add("C07", "exploration", {{"nav", 400000}}, {{"nav", 6000000}},
        "nav engine with field lookups (field, field_with_length, field_ensure, field_ensure_with_length) interleaved with navigation; searched names: present at/after the cursor, present before it, absent between, proper prefix, one-byte extension, previous query, absent after, just below a present name; result, cursor after a miss (must be the first field with a greater name) and getters are compared with the reference scan. non-trivial = a lookup ran while a container was pending or a container was skipped/left early; a divergence is attributed to C07 only if the minimised history still contains a lookup",
        {"reference cursor correct", "sampling"});
    add("C11", "exploration", {{"nav", 400000}}, {{"nav", 6000000}},
        "nav engine with get_raw / parser_to_writer at any position after any navigation history; span, standalone validity (real verify on a fresh parser), bytes appended to an exact-size writer, cursor afterwards; on scalars both must return false and change nothing. non-trivial = at least one container raw-extracted/skipped/left early; attributed to C11 only if the minimised history still contains raw/towriter",
        {"reference cursor correct", "sampling"});
    add("C01", "exploration", {{"sloppy", 500000}, {"traverse", 100000}, {"tostring", 1500}}, {{"sloppy", 8000000}, {"traverse", 2000000}, {"tostring", 30000}},
        "each run: delivered bytes = valid / truncated / corrupted / random document in an exact-size heap block, parser struct and state array of exactly max_depth entries pre-filled with PRNG garbage, 1..60 calls over the whole public parser API with return values ignored (lookups only while structurally inside an object). oracle: no ASan/UBSan report, every returned span inside the delivered block, buffer unchanged. non-trivial = at least 3 calls returned true or an error class other than init rejection was reached. The batch also runs the traverse and tostring engines with this property as owner: a crash or an out-of-buffer span met in an adaptive traversal or under the to_string capacity sweep (reads) belongs to C01",
        {"ASan/UBSan detect the out-of-bounds accesses (exact-size heap blocks, no slack)", "sampling"});
    add("C09", "exploration", {{"sloppy", 300000}, {"capacity", 2500}}, {{"sloppy", 6000000}, {"capacity", 60000}},
        "parser: sloppy workload, latch monitor over the recorded history - after the first call that sets an error, every advancing call returns false, every getter is neutral, the flag stays set until init/reset/verify(print,to_string). writer: capacity sweep places the first failing write at every position, arbitrary further writes follow: all false, nothing stored, counter keeps matching the reference size. non-trivial = at least one call was made after an error had been latched",
        {"sampling"});
    add("C16", "exploration", {{"sloppy", 150000}, {"traverse", 60000}, {"nav", 60000}, {"capacity", 1500}, {"tostring", 400}, {"cppwrap", 1500}}, {{"sloppy", 5000000}, {"traverse", 2000000}, {"nav", 2000000}, {"capacity", 15000}, {"tostring", 15000}, {"cppwrap", 50000}},
        "every API call of every run executes under a per-call budget of 2*len+16 token callbacks (exceeding it aborts the call: deterministic liveness violation) and a 10 s CPU watchdog; per call: tokens (callbacks minus re-reports of a BEGIN left in place) <= bytes advanced + 2, re-reports <= tokens + 1; verify: callbacks <= len + 2; a quarter of the runs install no callback and are covered by the watchdog alone. non-trivial = the run made at least 3 token callbacks",
        {"callback-free loops (writer calls, print / to_string formatting loops) are only seen by the CPU watchdog", "sampling"});
    add("C08", "exploration", {{"traverse", 500000}}, {{"traverse", 8000000}},
        "valid document, then 0-3 in-transit faults (truncate, flip/substitute, swap/dup/drop/insert, torn prefix, too-small max_depth); an adaptive complete traversal (enter/skip/lookup/early leave/get_raw/to_writer chosen by PRNG, seeing only the parser's answers) must end with all calls successful and error NONE iff binson_parser_verify on a fresh parser accepts the same bytes. non-trivial = a container was skipped, raw-extracted or left early",
        {"both sides are real code: no model involved", "sampling"});
    add("C04", "fault_enumeration", {{"capacity", 5000}}, {{"capacity", 120000}},
        "each run: a seeded write-call sequence (1-40 calls over all writer entry points, well-formed or token soup); the out-of-space fault is enumerated: the sequence is re-run for every capacity 0..S+3 (S<=4096; boundary-biased sample beyond) into an exact-size pattern-filled heap destination; counter == reference size, error == RANGE iff S > c, dest is the prefix of the reference encoding up to the first piece that does not fit, rest untouched, retry with the reported size succeeds. non-trivial = at least one capacity cut a token in the middle; evaluations counts (sequence,capacity) pairs in counters.capacity_points",
        {"reference encoder defines exact size and pieces", "capacity axis exhaustive only for S <= 4096"});
    add("C13", "fault_enumeration", {{"tostring", 6000}}, {{"tostring", 100000}},
        "each run: a seeded document (valid, or corrupted for the returns-false half); N := size from the NULL query; to_string is re-run for every capacity 0..N+3 into an exact-size pattern-filled heap block: c<N false and *size==N for every c, c>=N true, *size==N-1, NUL at N-1, identical text for all c>=N, never a store at or beyond c. non-trivial = valid document whose text is longer than 8 bytes",
        {"self-consistency oracle + ASan; the rendering itself (C14) is not judged"});
    add("C12", "exploration", {{"reuse", 300000}}, {{"reuse", 5000000}},
        "phase A (any sloppy/protocol history on document A) is abandoned at a random step, optionally struct+state array are scribbled, then restart by init_object/init_array (new buffer or rewritten in place), reset or verify, then phase B; the same restart+phase B runs on a fresh object; the two event logs must be identical. writer: init/reset after arbitrary writes behaves like fresh. non-trivial = phase A made progress (>=2 successful calls) before the crash point",
        {"differential against the real code: no model", "sampling"});
    add("C15", "fault_enumeration", {{"cppwrap", 12000}}, {{"cppwrap", 250000}},
        "fault-free: random trees -> put -> serialize == reference encoding; three deserialize overloads -> structural equality; arbitrary bytes: returns normally iff verify(depth 10) accepts, else std::exception. fault-injecting: the k-th operator new inside a Binson call throws for every k (sampled above 300): std::exception or correct completion, never crash/leak. non-trivial = tree with >= 3 nodes or corrupted bytes of length >= 2",
        {"reference encoder", "allocation-failure axis exhaustive per operation up to 300 allocations"});
    add("C17", "exploration", {{"interleave", 6000}, {"sloppy", 40000}, {"nav", 30000}, {"traverse", 20000}, {"reuse", 10000}, {"capacity", 1200}, {"tostring", 600}},
        {{"interleave", 300000}, {"sloppy", 1500000}, {"nav", 1000000}, {"traverse", 600000}, {"reuse", 300000}, {"capacity", 10000}, {"tostring", 10000}},
        "dynamic reading only. (1) interleave: 2-4 caller tasks (real threads parked on semaphores, one released at a time by the seeded scheduler) run sloppy/nav/capacity/tostring/traverse scripts on their own objects; task switches at API-call, token-callback and (yield build) libc-call boundaries; every task's event log must equal its solo log. (2) allocator gate: in the yield build malloc/calloc/realloc/free/aligned_alloc/posix_memalign are wrapped; reaching one while inside a library call is a violation; all engines run under the gate. (3) footprint: stack high-water of every public function on documents with identical leaves at object nesting 1..255, array nesting 1..255 and string sizes 4..65000 must not grow. non-trivial (interleave) = at least 4 task switches; distinct interleavings are counted in model_transitions_covered (hash of the switch sequence)",
        {"NOT decided: that no execution at all can reach an allocator / recursion / VLA (a statement about object code; the property's own observe_at names nm, -fstack-usage, call graph - static inspection, a different technique)", "a static written and read back between two consecutive yield points of one call is invisible to a serialising scheduler", "the C++ class allocates by design and is outside this property"});
    return v;
}

static const char *arg_val(int argc, char **argv, const char *name, const char *def) {
    for (int i = 1; i + 1 < argc; i++) if (!strcmp(argv[i], name)) return argv[i + 1];
    return def;
}

int main(int argc, char **argv) {
    // own output goes to a private FILE* on fd 1; `stdout` itself becomes the sink for text printed by the library
    g_real_out = fdopen(dup(1), "w");
    g_out = g_real_out;
    cookie_io_functions_t io = {nullptr, cookie_write, nullptr, nullptr};
    FILE *sinkf = fopencookie(nullptr, "w", io);
    setvbuf(sinkf, nullptr, _IOFBF, 1 << 16);
    fflush(stdout);
    stdout = sinkf;
#define OUT g_real_out
    if (argc < 2) { fprintf(OUT, "usage: binsim check <prop> [--tier quick|thorough] [--seed N] [--jobs N] [--evidence file] [--replays dir] | replay <file> | digest ... | gen <engine> <prop> <index>\n"); return 2; }
    std::string cmd = argv[1];
    uint64_t seed = strtoull(arg_val(argc, argv, "--seed", getenv("VERIF_SEED") ? getenv("VERIF_SEED") : "1"), nullptr, 10);
    std::string tier_s = arg_val(argc, argv, "--tier", "quick");
    int tier = tier_s == "thorough" ? 1 : 0;
    int jobs = atoi(arg_val(argc, argv, "--jobs", getenv("VERIF_JOBS") ? getenv("VERIF_JOBS") : "16"));
    int rc = 2;
    if (cmd == "check" && argc >= 3) {
        std::vector<CheckSpec> specs = make_specs();
        const CheckSpec *s = nullptr;
        for (auto &x : specs) if (x.prop == argv[2]) s = &x;
        if (!s) { fprintf(OUT, "binsim: no check for %s in this build\n", argv[2]); return 2; }
        RunOptions o; o.seed = seed; o.tier = tier; o.jobs = jobs;
        o.evidence_path = arg_val(argc, argv, "--evidence", "");
        o.replay_dir = arg_val(argc, argv, "--replays", "/verif/replays");
        o.scratch_dir = arg_val(argc, argv, "--scratch", "/verif/build/scratch");
        o.runs_override = strtoull(arg_val(argc, argv, "--runs", "0"), nullptr, 10);
        o.scale = atof(arg_val(argc, argv, "--scale", "1"));
        rc = run_check(*s, o);
    } else if (cmd == "replay" && argc >= 3) {
        rc = replay_file(argv[2]);
    } else if (cmd == "digest") {
        std::vector<Batch> b;
        std::string engs = arg_val(argc, argv, "--engines", "nav");
        uint64_t runs = strtoull(arg_val(argc, argv, "--runs", "1000"), nullptr, 10);
        size_t st = 0;
        while (st <= engs.size()) { size_t c = engs.find(',', st); std::string e = engs.substr(st, c == std::string::npos ? std::string::npos : c - st); if (!e.empty() && find_engine(e)) b.push_back(Batch{e, runs}); if (c == std::string::npos) break; st = c + 1; }
        rc = digest_cmd(b, arg_val(argc, argv, "--prop", "MIX"), seed, tier, jobs);
    } else if (cmd == "gen" && argc >= 5) {
        const Engine *e = find_engine(argv[2]);
        if (!e) return 2;
        Plan p = e->generate(seed, argv[3], strtoull(argv[4], nullptr, 10), tier);
        fprintf(OUT, "%s", plan_to_text(p).c_str());
        rc = 0;
    } else if (cmd == "footprint") {
        extern int footprint_cmd(const std::string &, const std::string &);
        rc = footprint_cmd(arg_val(argc, argv, "--json", ""), arg_val(argc, argv, "--replays", "/verif/replays"));
    } else if (cmd == "props") {
        for (auto &x : make_specs()) fprintf(OUT, "%s\n", x.prop.c_str());
        rc = 0;
    }
    fflush(g_real_out);
    return rc;
}
