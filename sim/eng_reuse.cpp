// eng_reuse.cpp - `reuse` engine (C12): crash / abandon at an arbitrary step (F7), optional RAM scribble over the
// parser object and its state array, restart via init / reset / verify (optionally with the stored bytes
// rewritten in place), then a second scripted sequence. The identical restart + second sequence runs on a fresh
// object; the two event logs must be identical. Differential against the real code - no model.
#include "session.hpp"
#include "model.hpp"
#include "engines.hpp"
#include "gen_common.hpp"

namespace {

static Op mk(int code, int64_t a = 0, const Bytes &b = Bytes(), int64_t c = 0) { Op o; o.code = code; o.a = a; o.b = b; o.c = c; return o; }

static void gen_writer_ops(Rng &ro, std::vector<Op> &ops, int n) {
    for (int i = 0; i < n; i++) {
        switch (ro.below(10)) {
            case 0: ops.push_back(mk(W_OBJ_BEGIN)); break; case 1: ops.push_back(mk(W_OBJ_END)); break;
            case 2: ops.push_back(mk(W_ARR_BEGIN)); break; case 3: ops.push_back(mk(W_BOOL, (int64_t)ro.below(2))); break;
            case 4: case 5: ops.push_back(mk(W_INT, interesting_int(ro))); break;
            case 6: ops.push_back(mk(W_DOUBLE, (int64_t)interesting_double(ro))); break;
            case 7: { Bytes b(ro.below(20)); for (auto &x : b) x = (uint8_t)('a' + ro.below(26)); ops.push_back(mk(W_STRING_LEN, 0, b)); break; }
            case 8: { Bytes b(ro.below(140)); for (auto &x : b) x = (uint8_t)ro.below(256); ops.push_back(mk(W_BYTES, 0, b)); break; }
            default: ops.push_back(mk(ro.chance(1, 6) ? W_STRING_NULL : W_COUNTER)); break;
        }
    }
}

Plan reuse_generate(uint64_t base, const std::string &prop, uint64_t index, int tier) {
    Plan p; p.engine = "reuse"; p.prop = prop; p.index = index;
    p.seed = run_seed(base, "reuse", prop, index);
    Rng r(p.seed);
    Rng rd = r.fork("document"), rf = r.fork("faults"), ro = r.fork("operations"), r2 = r.fork("second");
    if (ro.chance(12, 100)) {       // writer half of the property
        p.par["writer"] = 1;
        p.par["cap1"] = (int64_t)ro.below(ro.chance(1, 2) ? 12 : 300);
        p.par["cap2"] = (int64_t)ro.below(ro.chance(1, 3) ? 12 : 300);
        p.par["wrk"] = (int64_t)ro.below(3);       // 0 init, 1 reset, 2 init with a NULL destination (rejected) followed by reset
        gen_writer_ops(ro, p.ops, (int)ro.below(25));
        gen_writer_ops(r2, p.ops2, 1 + (int)r2.below(20));
        p.prefill = rd.next() | 1;
        p.faults.push_back("F7:writer_restart");
        return p;
    }
    if (ro.chance(1, tier ? 30 : 60)) {
        // abandoned deep inside: a spine of nested objects walked down level by level, at and around the limits of the depth counter
        static const int T[] = {15, 16, 17, 127, 128, 129, 253, 254, 255};
        int n = T[ro.below(9)];
        std::vector<std::string> f; int need = n;
        p.root = 0;
        for (int i = 0; i < n; i++) { p.doc.push_back(0x40); if (i + 1 < n) { p.doc.push_back(0x14); p.doc.push_back(0x01); p.doc.push_back('a'); } }
        for (int i = 0; i < n; i++) p.doc.push_back(0x41);
        p.doc2 = p.doc;
        p.max_depth = ro.chance(1, 2) ? need : std::min(255, need + (int)ro.below(4));
        p.prefill = rd.next() | 1;
        p.ops.push_back(mk(P_INIT_OBJ, -1)); p.ops.push_back(mk(P_ENTER_OBJ));
        int down = n - 1 - (int)ro.below(3); if (down < 1) down = 1;
        for (int i = 0; i < down; i++) { p.ops.push_back(mk(P_NEXT)); p.ops.push_back(mk(P_ENTER_OBJ)); }
        int rk = 1 + (int)ro.below(5); if (rk == 1 || rk == 4) rk = 2;      // reset / verify kinds (same bytes)
        p.par["rk"] = rk; p.par["root2"] = 0;
        p.ops2.push_back(mk(P_ENTER_OBJ));
        int again = (int)ro.below((uint64_t)n + 2);
        for (int i = 0; i < again; i++) { p.ops2.push_back(mk(P_NEXT)); p.ops2.push_back(mk(i % 7 == 6 ? P_GET_NAME : P_ENTER_OBJ)); }
        p.ops2.push_back(mk(P_VERIFY));
        p.faults.push_back(fmt("F7:abandon@depth=%d", down + 1));
        p.faults.push_back("shape:deep");
        return p;
    }
    Node ta, tb; bool va, vb; int need_a = 1, need_b = 1, rootb = 0;
    std::vector<std::string> fb;
    p.doc = gen_document(rd, tier, p.root, &ta, va, p.faults, &need_a);
    p.doc2 = gen_document(r2, tier, rootb, &tb, vb, fb, &need_b);
    if (rf.chance(1, 3)) apply_faults(rf, p.doc, 1 + (int)rf.below(2), p.faults, &p.doc2);
    if (rf.chance(1, 3)) apply_faults(rf, p.doc2, 1 + (int)rf.below(2), p.faults, &p.doc);
    std::vector<Bytes> na, nb; collect_names(ta, na); collect_names(tb, nb);
    p.note = "A=" + tree_text(ta, 150) + "\nB=" + tree_text(tb, 150);
    unsigned dm = (unsigned)rd.below(100);
    int need = std::max(need_a, need_b);
    p.max_depth = dm < 60 ? std::min(255, need + (int)rd.below(2)) : dm < 80 ? std::max(1, std::min(need_a, need_b)) : 1 + (int)rd.below(12);
    p.prefill = rd.chance(3, 4) ? (rd.next() | 1) : 0;
    // phase A: init, usually enter, then a sloppy history; the list ends at the crash point
    p.ops.push_back(mk(p.root ? P_INIT_ARR : P_INIT_OBJ, ro.chance(1, 25) ? (int64_t)ro.below(p.doc.size() + 1) : -1));
    if (ro.chance(5, 6)) p.ops.push_back(mk(p.root ? P_ENTER_ARR : P_ENTER_OBJ));
    gen_sloppy_ops(ro, p.ops, (int)ro.below(40), na, p.doc.size(), p.root, ro.chance(1, 3));
    unsigned k = (unsigned)ro.below(100);
    int rk = k < 40 ? 0 : k < 55 ? 1 : k < 70 ? 2 : k < 80 ? 3 : k < 90 ? 4 : 5;
    p.par["rk"] = rk;
    if (ro.chance(1, 5)) p.par["nocb"] = 1;
    { Rng rl = r.fork("layout"); if (rl.chance(1, 2)) { p.par["lead"] = (int64_t)rl.below(16); p.par["lead2"] = (int64_t)rl.below(16); } }   // reused and fresh object see the message at different alignments
    p.par["root2"] = rk == 0 ? rootb : p.root;
    if (rk == 0 && ro.chance(2, 5)) { p.par["scribble"] = (int64_t)((ro.next() >> 2) | 1); p.faults.push_back("F7:scribble"); }
    p.faults.push_back(fmt("F7:abandon@%zu", p.ops.size()));
    p.faults.push_back(fmt("F7:restart=%s", rk == 0 ? "init" : rk == 1 ? "rewrite+reset" : rk == 2 ? "reset" : rk == 3 ? "verify" : rk == 4 ? "rewrite+verify" : "verify-vs-reset"));
    if (r2.chance(5, 6)) p.ops2.push_back(mk(p.par["root2"] ? P_ENTER_ARR : P_ENTER_OBJ));
    gen_sloppy_ops(r2, p.ops2, 1 + (int)r2.below(40), rk == 0 || rk == 1 || rk == 4 ? nb : na, p.doc.size(), (int)p.par["root2"], true);
    return p;
}

static void restart(PSession &ps, const Plan &p, int rk, bool as_reset, Outcome *out) {
    switch (rk) {
        case 0: ps.src = p.doc2; *out = ps.call(mk(p.P("root2") ? P_INIT_ARR : P_INIT_OBJ, -1)); break;
        case 1: ps.rewrite(p.doc2); *out = ps.call(mk(P_RESET)); break;
        case 2: *out = ps.call(mk(P_RESET)); break;
        case 3: *out = ps.call(mk(P_VERIFY)); break;
        case 4: ps.rewrite(p.doc2); *out = ps.call(mk(P_VERIFY)); break;
        default: *out = ps.call(mk(as_reset ? P_RESET : P_VERIFY)); break;
    }
}

static Result reuse_writer(const Plan &p, const ExecCtx &c) {
    Result r;
    Trace t1, t2; t1.keep_ev = t2.keep_ev = true; t1.verbose = c.verbose;
    Sink sink; sink.own = c.prop; sink.cnt = &r.cnt;
    Sink quiet; quiet.own = "~";
    size_t cap1 = (size_t)p.P("cap1"), cap2 = (size_t)p.P("cap2"); int wrk = (int)p.P("wrk");
    size_t m1 = 0, m2 = 0; bool compare = true;
    WSession a(t1, quiet, r.cnt), f(t2, quiet, r.cnt);
    uint64_t okcalls = 0;
    if (!p.P("only_fresh")) {
        a.setup(p.prefill);
        a.call(mk(W_INIT, (int64_t)cap1));
        for (auto &o : p.ops) { Outcome x = a.call(o); if (x.ret) okcalls++; }
        t1.add("ABANDON");
        m1 = t1.log.size();
        if (wrk == 2) a.call(mk(W_INIT, -(int64_t)(cap2 + 1)));
        Outcome rs = wrk == 0 ? a.call(mk(W_INIT, (int64_t)cap2)) : a.call(mk(W_RESET));
        if (wrk == 1 && !rs.ret) compare = false;      // a reset that returned false promises nothing
        if (wrk == 2) {
            // init rejected the NULL destination: the object must be as unusable as a fresh one treated the same way
            if (rs.ret) sink.fail("C12.writer.reset_after_null_init", "reset returned true on a writer whose last init was given a NULL destination (a fresh writer refuses)");
            compare = false;
            for (auto &o : p.ops2) { Outcome x = a.call(o); if (x.ret && o.code != W_COUNTER) { sink.fail("C12.writer.writes_after_null_init", "a write succeeded on a writer whose last init was given a NULL destination"); break; } }
        }
        if (compare) {
            if (a.counter() != 0 || a.err() != 0) sink.fail("C12.writer.not_clean", fmt("after %s: counter=%zu error=%s", wrk == 0 ? "init" : "reset", a.counter(), err_name(a.err())));
            m1 = t1.log.size();
            for (auto &o : p.ops2) a.call(o);
        }
    }
    f.setup(mix64(p.prefill));
    f.call(mk(W_INIT, (int64_t)(wrk == 0 ? cap2 : cap1)));
    m2 = t2.log.size();
    for (auto &o : p.ops2) f.call(o);
    if (!p.P("only_fresh") && compare && !sink.failed()) {
        std::vector<std::string> la(t1.log.begin() + (long)m1, t1.log.end()), lf(t2.log.begin() + (long)m2, t2.log.end());
        for (size_t i = 0; i < std::max(la.size(), lf.size()); i++) {
            std::string x = i < la.size() ? la[i] : "<nothing>", y = i < lf.size() ? lf[i] : "<nothing>";
            if (x != y) { sink.fail("C12.writer.differs", "reused: " + x + " | fresh: " + y); break; }
        }
        size_t capn = wrk == 0 ? cap2 : cap1;
        size_t n = std::min(f.counter(), capn);
        if (!sink.failed() && f.err() == 0 && n && memcmp(a.dest(), f.dest(), n) != 0) sink.fail("C12.writer.bytes_differ", "bytes written after the restart differ from those of a fresh writer");
    }
    r.clause = sink.clause; r.detail = sink.detail;
    r.trace_hash = t1.h ^ (t2.h * 3); r.steps = t1.log.size() + t2.log.size(); r.calls = r.steps;
    r.nontrivial = okcalls >= 2 && compare;
    bump(r.cnt, "reuse.writer_runs");
    if (c.verbose) { r.log = t1.log; r.log.push_back("---- fresh ----"); r.log.insert(r.log.end(), t2.log.begin(), t2.log.end()); }
    return r;
}

Result reuse_execute(const Plan &p, const ExecCtx &c) {
    if (p.P("writer")) return reuse_writer(p, c);
    Result r;
    if (p.ops.empty() || (p.ops[0].code != P_INIT_OBJ && p.ops[0].code != P_INIT_ARR)) { r.invalid_plan = true; r.detail = "phase A must start with an init"; return r; }
    Trace t1, t2; t1.keep_ev = t2.keep_ev = true;
    Sink sink; sink.own = c.prop; sink.cnt = &r.cnt;     // C01/C09/C16 monitors of the sessions are filtered by ownership
    int rk = (int)p.P("rk");
    bool only_fresh = p.P("only_fresh") != 0;
    size_t m1 = 0, m2 = 0;
    Op last_init = mk(p.root ? P_INIT_ARR : P_INIT_OBJ, -1);
    uint64_t okcalls = 0, steps = 0;
    bool as_reset = false;
    Outcome r1, r2;
    if (!only_fresh) {
        PSession ps(t1, sink, r.cnt);
        ps.lead = (int)p.P("lead");
        ps.setup(p.max_depth, p.prefill, p.doc, p.root != 0);
        ps.use_cb = !p.P("nocb");
        for (auto &o : p.ops) {
            if (ps.dead) break;
            Outcome x = ps.call(o);
            if (!x.skipped && (o.code == P_INIT_OBJ || o.code == P_INIT_ARR)) last_init = o;
            if (!x.skipped && x.ret && is_advancing(o.code)) okcalls++;
        }
        ps.call(mk(H_ABANDON));
        if (rk == 0 && p.P("scribble")) ps.scribble((uint64_t)p.P("scribble"));
        m1 = t1.log.size();
        if (!ps.dead) {
            restart(ps, p, rk, false, &r1);
            if (rk == 5 && r1.ret) { as_reset = true; m1 = t1.log.size(); }     // successful verify == reset: compare what follows
            for (auto &o : p.ops2) { if (ps.dead) break; ps.call(o); }
        }
        steps += ps.steps;
        if (ps.dead) { r.clause = sink.clause; r.detail = sink.detail; r.trace_hash = t1.h; r.steps = steps; return r; }
    } else {
        for (auto &o : p.ops) if (o.code == P_INIT_OBJ || o.code == P_INIT_ARR) last_init = o;
        as_reset = false;
    }
    {
        PSession pf(t2, sink, r.cnt);
        pf.lead = (int)p.P("lead2");
        pf.setup(p.max_depth, 0, p.doc, p.root != 0);
        pf.use_cb = !p.P("nocb");
        if (rk != 0) pf.call(last_init);        // prerequisite of reset / verify: the same delivery the reused object last saw
        m2 = t2.log.size();
        restart(pf, p, rk, as_reset, &r2);
        if (as_reset) m2 = t2.log.size();
        for (auto &o : p.ops2) { if (pf.dead) break; pf.call(o); }
        steps += pf.steps;
    }
    if (!only_fresh && !sink.failed()) {
        std::vector<std::string> la(t1.log.begin() + (long)m1, t1.log.end()), lf(t2.log.begin() + (long)m2, t2.log.end());
        for (size_t i = 0; i < std::max(la.size(), lf.size()); i++) {
            std::string x = i < la.size() ? la[i] : "<nothing>", y = i < lf.size() ? lf[i] : "<nothing>";
            if (x != y) { sink.fail("C12.parser.differs", fmt("event %zu after the restart - reused: ", i) + x + " | fresh: " + y); break; }
        }
    }
    r.clause = sink.clause; r.detail = sink.detail;
    r.trace_hash = t1.h ^ (t2.h * 3); r.steps = steps; r.calls = t1.log.size() + t2.log.size();
    r.nontrivial = okcalls >= 2;
    bump(r.cnt, fmt("reuse.restart_kind_%d", rk));
    if (p.P("scribble")) bump(r.cnt, "reuse.scribbled");
    if (c.verbose) { r.log = t1.log; r.log.push_back("---- fresh ----"); r.log.insert(r.log.end(), t2.log.begin(), t2.log.end()); }
    return r;
}

void reuse_shrink(const Plan &p, std::vector<Plan> &out) {
    if (p.P("scribble")) { Plan q = p; q.par["scribble"] = 0; out.push_back(q); }
    if (p.prefill) { Plan q = p; q.prefill = 0; out.push_back(q); }
    for (int which = 0; which < 2; which++) {
        const Bytes &d = which ? p.doc2 : p.doc;
        size_t n = d.size();
        for (size_t chunk = n / 2; chunk >= 1; chunk /= 2) {
            for (size_t st = 0; st + chunk <= n && out.size() < 300; st += chunk) { Plan q = p; Bytes &e = which ? q.doc2 : q.doc; e.erase(e.begin() + (long)st, e.begin() + (long)(st + chunk)); q.note.clear(); out.push_back(q); }
            if (chunk == 1) break;
        }
    }
    if (p.max_depth > 1) { Plan q = p; q.max_depth--; out.push_back(q); }
}

} // namespace

extern const Engine ENGINE_REUSE = {"reuse", reuse_generate, reuse_execute, reuse_shrink, nullptr};
