// session.hpp - drives the REAL library code (parser / writer) on simulator-owned media and records
// the event log. All monitors that are evaluated on every call of every engine live here:
//   C01 span / const-buffer / canary,  C09 latch,  C16 step budget and linear-work bound.
#pragma once
#include "core.hpp"
#include <csetjmp>
extern "C" {
#include "binson_light.h"
}

// ---------------------------------------------------------------- event log
struct Trace {
    uint64_t h = 0xcbf29ce484222325ULL;
    bool verbose = false;
    std::vector<std::string> log;
    std::vector<uint64_t> ev;       // one hash per event (differential comparison)
    bool keep_ev = false;
    void add(const std::string &s) {
        uint64_t e = fnv_str(s);
        h = (h ^ e) * 0x100000001b3ULL; h ^= h >> 29;
        if (keep_ev) ev.push_back(e);
        if (verbose || keep_ev) log.push_back(s);
    }
    // shown in replays, not part of the digest (things that are not results of the library: allocation counts, ...)
    void note(const std::string &s) { if (verbose || keep_ev) log.push_back("    (" + s + ")"); }
};

// ---------------------------------------------------------------- failure sink
struct Sink {
    std::string own;                // owning property id ("" = report everything)
    std::string clause, detail;     // first owned failure
    std::map<std::string, uint64_t> *cnt = nullptr;
    void fail(const std::string &cl, const std::string &det) {
        bool mine = own.empty() || (cl.size() > own.size() && cl.compare(0, own.size(), own) == 0 && cl[own.size()] == '.');
        if (!mine) { if (cnt) (*cnt)["foreign." + cl]++; return; }
        if (clause.empty()) { clause = cl; detail = det; }
    }
    bool failed() const { return !clause.empty(); }
};

// ---------------------------------------------------------------- scheduler hook (interleave engine)
enum YieldKind { Y_CALL = 0, Y_TOKEN = 1, Y_LIBC = 2 };
extern void (*g_yield_hook)(int kind);
extern __thread int g_in_library;       // >0 while a library call is on this thread's stack
extern __thread struct PSession *g_cur_session;
extern __thread std::string *g_capture;
#include <atomic>
extern std::atomic<uint64_t> g_gate_hits;        // allocator gate (yield build): allocator calls made while inside the library
extern std::atomic<uint64_t> g_libc_yield_points;
extern __thread const char *g_gate_last;
extern const bool g_yield_build;
extern const bool g_instr_build;                 // library compiled with -finstrument-functions: re-entry of an active library function is counted
extern std::atomic<uint64_t> g_recursion_hits;
extern void *volatile g_recursion_fn, *volatile g_recursion_outer;
//  // sink of the calling task for text the library prints

// exact-size media blocks
struct Block {
    uint8_t *p = nullptr; size_t n = 0; uint8_t *base = nullptr; size_t total = 0; int mode = 0; size_t lead = 0;
};
Block block_alloc(size_t n, int guard_mode, int lead = 0);     // guard_mode 0: exact malloc (ASan red zones) + canaries in plain builds; 1: PROT_NONE page after the block
void block_free(Block &b);
bool block_canary_ok(const Block &b);

struct Outcome {
    bool skipped = false;       // op not executed (lookup guard, missing precondition)
    bool ret = false;
    uint32_t err = 0;           // error_flags after the call (raw)
    size_t used = 0;            // buffer_used after the call
    unsigned depth = 0;
    int64_t ival = 0; uint64_t dbits = 0; int type = 0;
    bool isnull = false;        // pointer result was NULL
    long span_off = -1; size_t span_len = 0; bool span_out = false;
    uint64_t cb = 0;            // token callbacks during this call
    std::string text;           // rendered text (print / to_string) or written bytes hex (to_writer)
    size_t size_out = 0;
    bool aborted = false;       // step budget exceeded; session is dead
};

struct PSession {
    Trace &tr; Sink &sink;
    std::map<std::string, uint64_t> &cnt;
    Block pblk, sblk, bblk;             // parser struct, state array, delivered buffer
    binson_parser *p = nullptr;
    Bytes src;                          // bytes the plan delivers (full document)
    Bytes copy;                         // what the delivered block must still contain
    int max_depth = 1;
    bool array_root = false;
    std::string labels;                 // structural labels of the delivered bytes
    bool guard_lookups = true;
    binson_writer *ext_writer = nullptr; // optional long-lived writer for to_writer with op.c == 1 (owned by the engine)
    bool use_cb = true;                 // false: the application installs no token callback (the library's `cb == NULL` paths run; steps are then not counted)
    int guard_mode = 0;
    size_t tail_room = 0;               // > 0: the message lies in a larger arena of the caller; this many bytes right behind it belong to the caller too (P_TO_WRITER with c == 2 writes there)
    Block arena;
    int lead = 0;                       // the delivered buffer starts this many bytes (0..15) past an allocator boundary
    bool inited = false;                // at least one init call has been made (struct no longer pure garbage)
    bool dead = false;
    // monitors
    bool latched = false;
    uint32_t first_err = 0;
    uint64_t cb_count = 0, park_count = 0, budget = 0, total_cb = 0, steps = 0, calls = 0, post_error_calls = 0;
    size_t cb_last_used = 0;
    uint64_t max_slack = 0;
    sigjmp_buf jb;
    std::string tag;                    // task / phase tag prepended to events

    PSession(Trace &t, Sink &s, std::map<std::string, uint64_t> &c) : tr(t), sink(s), cnt(c) {}
    ~PSession();
    void setup(int max_depth, uint64_t prefill, const Bytes &doc, bool array_root, int guard_mode = 0);
    void scribble(uint64_t seed);
    void rewrite(const Bytes &nd);      // in-place rewrite of the delivered buffer (same block if same length)
    Outcome call(const Op &op);
    uint32_t err() const;
    void end_checks();                  // const-buffer + canaries
    void fresh_object(uint64_t prefill);// replace struct + state array by new blocks (keeps delivered buffer)
private:
    bool guarded(const Op &op, Outcome &o);
    void do_call(const Op &op, Outcome &o);
    void deliver(size_t len);
    void check_span(const char *what, const bbuf *b, Outcome &o);
    void latch_monitor(const Op &op, const Outcome &o, bool was_latched);
};

struct WSession {
    Trace &tr; Sink &sink;
    std::map<std::string, uint64_t> &cnt;
    Block wblk, dblk;
    binson_writer *w = nullptr;
    size_t cap = 0;
    bool inited = false;
    bool latched = false;
    std::string tag;
    std::vector<Block> keep;            // argument blocks kept alive until the end of the run
    uint64_t ncalls = 0;
    Bytes shadow;                       // what the caller itself has put into the destination (fill pattern, values prepared in place)
    WSession(Trace &t, Sink &s, std::map<std::string, uint64_t> &c) : tr(t), sink(s), cnt(c) {}
    ~WSession();
    void setup(uint64_t prefill);
    Outcome call(const Op &op);
    const uint8_t *dest() const { return dblk.p; }
    uint32_t err() const;
    size_t counter() const;
    static const uint8_t FILL = 0xA5;
};

const char *err_name(uint32_t e);
// auxiliary documents {"a":<container>,"c":2} for W_TO_WRITER (variant = op.a / 5 % AUX_DOCS): what parser_to_writer copies
static const int AUX_DOCS = 6;
const Bytes &aux_doc(int variant);
Bytes aux_container(int variant);      // the bytes of the container under "a"
bool is_advancing(int code);
bool is_restart(int code);

// process-wide configuration the application may have chosen: a locale other than "C" for the duration of one run
#include <clocale>
struct LocaleScope {
    bool on;
    explicit LocaleScope(bool enable) : on(enable) { if (on) setlocale(LC_ALL, "C.UTF-8"); }
    ~LocaleScope() { if (on) setlocale(LC_ALL, "C"); }
};
