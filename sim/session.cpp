// session.cpp - real-code driver and per-call monitors
#include "session.hpp"
#include "model.hpp"
#include <cstdio>
#include <cstdlib>
#include <sys/mman.h>
#include <unistd.h>

#if defined(__SANITIZE_ADDRESS__)
#define SIM_ASAN 1
#elif defined(__has_feature)
#if __has_feature(address_sanitizer)
#define SIM_ASAN 1
#endif
#endif
#ifndef SIM_ASAN
#define SIM_ASAN 0
#endif
#if SIM_ASAN
#include <sanitizer/asan_interface.h>
#endif

void (*g_yield_hook)(int kind) = nullptr;
__thread int g_in_library = 0;
__thread PSession *g_cur_session = nullptr;
__thread std::string *g_capture = nullptr;      // where printed text of the current task goes (declared in session.hpp)

static const size_t CANARY = 64;

// Where a C-string argument lives is part of the caller simulation: half of the calls pass an exact-size heap block
// (an over-read traps), the other half pass ONE process-wide scratch slot that every task reuses, the way a caller
// composes names in a stack slot or a static buffer. A library that remembers anything about an argument by its
// address (a memoised strlen, a cached pointer) then sees the same address with different contents.
static char g_arg_slot[1 << 16];
static std::atomic<int> g_slot_busy(0);     // a library call that was handed the slot is still in flight (it may be parked at a yield point)
static thread_local bool t_holds_slot = false;
static void slot_release() { if (t_holds_slot) { t_holds_slot = false; g_slot_busy = 0; } }
static const uint8_t *cstr_arg(const Bytes &text, uint64_t selector, Block &owned) {
    int expect = 0;
    if ((selector & 1) && text.size() + 1 <= sizeof g_arg_slot && g_slot_busy.compare_exchange_strong(expect, 1)) {
        t_holds_slot = true;
        if (!text.empty()) memcpy(g_arg_slot, text.data(), text.size());
        g_arg_slot[text.size()] = 0;
        return (const uint8_t *)g_arg_slot;
    }
    owned = block_alloc(text.size() + 1, 0);
    if (!text.empty()) memcpy(owned.p, text.data(), text.size());
    owned.p[text.size()] = 0;
    return owned.p;
}
// every entry into library code is bracketed, so that libc wraps and the allocator gate can tell library calls from harness calls
#define LIB(x) do { g_in_library++; x; g_in_library--; } while (0)

Block block_alloc(size_t n, int guard_mode, int lead) {
    Block b; b.n = n; b.mode = guard_mode; b.lead = (size_t)lead;
    if (guard_mode == 1) {
        size_t pg = (size_t)sysconf(_SC_PAGESIZE);
        size_t pages = (n + pg - 1) / pg + 1;
        b.total = (pages + 1) * pg;
        b.base = (uint8_t *)mmap(nullptr, b.total, PROT_READ | PROT_WRITE, MAP_PRIVATE | MAP_ANONYMOUS, -1, 0);
        if (b.base == (uint8_t *)MAP_FAILED) abort();
        mprotect(b.base + pages * pg, pg, PROT_NONE);
        b.p = b.base + pages * pg - n;          // block ends exactly at the inaccessible page
        memset(b.base, 0xCB, pages * pg - n);
        return b;
    }
    // `lead`: the caller's data does not start on an allocator boundary (a message inside a larger receive buffer, a
    // field of a packed struct): the block begins `lead` bytes into the allocation; its END is still exact.
#if SIM_ASAN
    b.base = (uint8_t *)malloc(n + b.lead);     // exact size: ASan red zones on both sides; n == 0 gives a pointer with no accessible byte
    if (!b.base) abort();
    b.p = b.base + b.lead; b.total = n + b.lead;
    if (b.lead) { memset(b.base, 0xCB, b.lead); ASAN_POISON_MEMORY_REGION(b.base, b.lead); }   // (whole 8-byte granules only: the last partial one stays readable)
#else
    b.total = n + b.lead + 2 * CANARY;
    b.base = (uint8_t *)malloc(b.total);
    if (!b.base) abort();
    memset(b.base, 0xCB, CANARY + b.lead);
    memset(b.base + CANARY + b.lead + n, 0xCB, CANARY);
    b.p = b.base + CANARY + b.lead;
#endif
    return b;
}

void block_free(Block &b) {
    if (!b.base) return;
    if (b.mode == 1) munmap(b.base, b.total);
    else {
#if SIM_ASAN
        if (b.lead) ASAN_UNPOISON_MEMORY_REGION(b.base, b.lead);
#endif
        free(b.base);
    }
    b = Block();
}

bool block_canary_ok(const Block &b) {
    if (!b.base) return true;
    if (b.mode == 1) { for (uint8_t *q = b.base; q < b.p; q++) if (*q != 0xCB) return false; return true; }
#if SIM_ASAN
    return true;
#else
    for (size_t i = 0; i < CANARY + b.lead; i++) if (b.base[i] != 0xCB) return false;
    for (size_t i = 0; i < CANARY; i++) if (b.base[CANARY + b.lead + b.n + i] != 0xCB) return false;
    return true;
#endif
}

const char *err_name(uint32_t e) {
    static const char *n[] = {"NONE", "RANGE", "FORMAT", "EOF", "END_OF_BLOCK", "NULL", "STATE", "WRONG_TYPE", "MAX_DEPTH_OBJECT", "MAX_DEPTH_ARRAY"};
    return e < 10 ? n[e] : "?";
}

bool is_advancing(int c) {
    switch (c) {
        case P_NEXT: case P_NEXT_ENSURE: case P_FIELD: case P_FIELD_LEN: case P_FIELD_ENS: case P_FIELD_ENS_LEN: case P_FIELD_NULL:
        case P_ENTER_OBJ: case P_LEAVE_OBJ: case P_ENTER_ARR: case P_LEAVE_ARR: case P_GET_RAW: case P_TO_WRITER: return true;
    }
    return false;
}
bool is_restart(int c) {
    switch (c) { case P_INIT_OBJ: case P_INIT_ARR: case P_RESET: case P_VERIFY: case P_PRINT: case P_TO_STRING: case P_TO_STRING_NULL: return true; }
    return false;
}
static bool is_lookup(int c) { return c == P_FIELD || c == P_FIELD_LEN || c == P_FIELD_ENS || c == P_FIELD_ENS_LEN; }

// ---------------------------------------------------------------- token callback: step counter, budget, yield point
static void sim_cb(binson_parser *parser, uint16_t next_state, void *ctx) {
    (void)parser; (void)next_state;
    PSession *s = (PSession *)ctx;
    s->cb_count++;
    // A container BEGIN that is reported but left in place (the parser "parks" in front of it and consumes it on the next
    // advance) is the same token reported twice: counted separately, so that tokens are compared with bytes advanced.
    // Recognised from the wire format only: no byte consumed since the previous event and the next byte is a BEGIN.
    if (parser->buffer_used == s->cb_last_used && parser->buffer_used < parser->buffer_size &&
        (parser->buffer[parser->buffer_used] == 0x40 || parser->buffer[parser->buffer_used] == 0x42)) s->park_count++;
    s->cb_last_used = parser->buffer_used;
    if (s->cb_count > s->budget) siglongjmp(s->jb, 1);
    if (g_yield_hook) { int saved = g_in_library; g_in_library = 0; g_yield_hook(Y_TOKEN); g_in_library = saved; }
}

PSession::~PSession() { block_free(pblk); block_free(sblk); block_free(bblk); block_free(arena); }

static void fill_garbage(uint8_t *p, size_t n, uint64_t seed) {
    if (seed == 0) { memset(p, 0, n); return; }
    Rng r(seed);
    size_t i = 0;
    while (i < n) { uint64_t v = r.next(); for (int k = 0; k < 8 && i < n; k++, i++) p[i] = (uint8_t)(v >> (8 * k)); }
}

void PSession::fresh_object(uint64_t prefill) {
    block_free(pblk); block_free(sblk);
    pblk = block_alloc(sizeof(binson_parser), 0);
    sblk = block_alloc(sizeof(binson_state) * (size_t)max_depth, 0);
    fill_garbage(pblk.p, pblk.n, prefill);
    fill_garbage(sblk.p, sblk.n, prefill ? mix64(prefill) : 0);
    p = (binson_parser *)pblk.p;
    // exactly what BINSON_PARSER_DEF_DEPTH documents: only state and max_depth are set by the caller
    p->state = (binson_state *)sblk.p;
    p->max_depth = (uint_fast8_t)max_depth;
    inited = false; latched = false;
}

void PSession::setup(int md, uint64_t prefill, const Bytes &doc, bool arr, int gm) {
    max_depth = md < 1 ? 1 : md > 255 ? 255 : md; array_root = arr; guard_mode = gm; src = doc;
    fresh_object(prefill);
}

void PSession::scribble(uint64_t seed) {
    // RAM scribble: everything except the two fields the caller owns
    binson_state *st = p->state; uint_fast8_t md = p->max_depth;
    fill_garbage(pblk.p, pblk.n, seed | 1);
    fill_garbage(sblk.p, sblk.n, mix64(seed) | 1);
    p->state = st; p->max_depth = md;
    inited = false; latched = false;
    tr.add(tag + "SCRIBBLE");
}

void PSession::deliver(size_t len) {
    if (len > src.size()) len = src.size();
    block_free(bblk); block_free(arena); bblk = Block();
    if (tail_room && guard_mode == 0) {
        // one arena of the caller: [ message | room for what is extracted from it ]; bblk is a view of the first part
        arena = block_alloc(len + tail_room, 0, lead);
        memset(arena.p + len, 0xA5, tail_room);
        bblk.p = arena.p; bblk.n = len;
    } else bblk = block_alloc(len, guard_mode, guard_mode == 0 ? lead : 0);
    if (len) memcpy(bblk.p, src.data(), len);
    copy.assign(src.begin(), src.begin() + (long)len);
}

void PSession::rewrite(const Bytes &nd) {
    // in-place rewrite of the stored bytes between a crash and a restart (same block, same length)
    size_t n = std::min(nd.size(), bblk.n);
    if (n) memcpy(bblk.p, nd.data(), n);
    for (size_t i = 0; i < n; i++) copy[i] = nd[i];
    labels.clear();
    tr.add(tag + fmt("REWRITE %zu", n));
}

uint32_t PSession::err() const { uint32_t e = 0; memcpy(&e, &p->error_flags, sizeof(p->error_flags) < 4 ? sizeof(p->error_flags) : 4); return e; }

void PSession::check_span(const char *what, const bbuf *b, Outcome &o) {
    if (!b) { o.isnull = true; return; }
    const uint8_t *lo = bblk.p, *hi = bblk.p + bblk.n;
    o.span_len = b->bsize;
    if (b->bptr == nullptr) { o.span_off = -2; if (b->bsize != 0) { o.span_out = true; sink.fail(std::string("C01.span.") + what, fmt("NULL bptr with bsize %zu", b->bsize)); } return; }
    if (b->bptr < lo || b->bptr > hi || b->bsize > (size_t)(hi - b->bptr)) {
        o.span_out = true; o.span_off = -3;
        sink.fail(std::string("C01.span.") + what, fmt("span [%p,+%zu) outside delivered buffer of %zu bytes", (const void *)b->bptr, b->bsize, bblk.n));
        return;
    }
    o.span_off = (long)(b->bptr - lo);
}

void PSession::end_checks() {
    if (bblk.p && bblk.n && memcmp(bblk.p, copy.data(), bblk.n) != 0) sink.fail("C01.const_buffer", "delivered buffer was modified");
    if (!block_canary_ok(pblk) || !block_canary_ok(sblk) || !block_canary_ok(bblk) || !block_canary_ok(arena)) sink.fail("C01.canary", "bytes around a caller-supplied block were overwritten");
}

static std::string short_text(const std::string &t) {
    if (t.size() <= 96) return t;
    return t.substr(0, 96) + fmt("...<%zu,%016llx>", t.size(), (unsigned long long)fnv_str(t));
}

// The only function that contains sigsetjmp: no C++ object with a destructor lives in its frame.
__attribute__((noinline)) bool PSession::guarded(const Op &op, Outcome &o) {
    if (sigsetjmp(jb, 0) != 0) return false;
    do_call(op, o);
    return true;
}

__attribute__((noinline)) void PSession::do_call(const Op &op, Outcome &o) {
    bool is_init = op.code == P_INIT_OBJ || op.code == P_INIT_ARR; (void)is_init;
    // argument blocks (exact size so that an over-read of a caller argument traps as well)
    Block arg; Block outb; Block wb; Block wdest;
    std::string printed;
    bbuf raw; raw.bptr = nullptr; raw.bsize = 0;
    size_t tsize = 0;
    binson_writer *sw = nullptr;

    switch (op.code) {
        case P_INIT_OBJ: case P_INIT_ARR: {
            size_t len = op.a < 0 ? src.size() : (size_t)op.a;
            deliver(len); labels.clear();
            if (op.code == P_INIT_OBJ) LIB(o.ret = binson_parser_init_object(p, bblk.p, bblk.n));
            else LIB(o.ret = binson_parser_init_array(p, bblk.p, bblk.n));
            inited = true;
            break;
        }
        case P_RESET: LIB(o.ret = binson_parser_reset(p)); break;
        case P_VERIFY: budget = 2 * bblk.n + 16; LIB(o.ret = binson_parser_verify(p)); break;
        case P_DEPTH: LIB(o.ival = (int64_t)binson_parser_get_depth(p)); o.ret = true; break;
        case P_NEXT: LIB(o.ret = binson_parser_next(p)); break;
        case P_NEXT_ENSURE: LIB(o.ret = binson_parser_next_ensure(p, (binson_type)(op.c % 10))); break;
        case P_GET_TYPE: LIB(o.type = (int)binson_parser_get_type(p)); o.ret = true; break;
        case P_FIELD: {
            Bytes nm = op.b; size_t z = 0; while (z < nm.size() && nm[z]) z++; nm.resize(z);
            const char *np = (const char *)cstr_arg(nm, calls, arg);
            LIB(o.ret = binson_parser_field(p, np)); break;
        }
        case P_FIELD_LEN: {
            // a > 0: the caller passes a name it got from the document itself (e.g. a span returned by get_name): the
            // argument aliases the delivered buffer at offset a-1 (only if those bytes really are the name)
            if (op.a > 0 && (size_t)(op.a - 1) + op.b.size() <= bblk.n && (op.b.empty() || memcmp(bblk.p + (op.a - 1), op.b.data(), op.b.size()) == 0)) {
                bump(cnt, "probe.lookup_name_aliases_document");
                LIB(o.ret = binson_parser_field_with_length(p, (const char *)bblk.p + (op.a - 1), op.b.size())); break;
            }
            arg = block_alloc(op.b.size(), 0); if (!op.b.empty()) memcpy(arg.p, op.b.data(), op.b.size());
            LIB(o.ret = binson_parser_field_with_length(p, (const char *)arg.p, op.b.size())); break;
        }
        case P_FIELD_ENS: {
            Bytes nm = op.b; size_t z = 0; while (z < nm.size() && nm[z]) z++; nm.resize(z);
            const char *np = (const char *)cstr_arg(nm, calls, arg);
            LIB(o.ret = binson_parser_field_ensure(p, np, (binson_type)(op.c % 10))); break;
        }
        case P_FIELD_ENS_LEN: {
            arg = block_alloc(op.b.size(), 0); if (!op.b.empty()) memcpy(arg.p, op.b.data(), op.b.size());
            LIB(o.ret = binson_parser_field_ensure_with_length(p, (const char *)arg.p, op.b.size(), (binson_type)(op.c % 10))); break;
        }
        case P_FIELD_NULL:
            switch (op.a & 3) {
                case 0: LIB(o.ret = binson_parser_field_with_length(p, nullptr, (size_t)(op.c & 7))); break;
                case 1: LIB(o.ret = binson_parser_field(p, nullptr)); break;
                case 2: LIB(o.ret = binson_parser_field_ensure(p, nullptr, BINSON_TYPE_INTEGER)); break;
                default: LIB(o.ret = binson_parser_field_ensure_with_length(p, nullptr, (size_t)(op.c & 7), BINSON_TYPE_INTEGER)); break;
            }
            break;
        case P_ENTER_OBJ: LIB(o.ret = binson_parser_go_into_object(p)); break;
        case P_LEAVE_OBJ: LIB(o.ret = binson_parser_leave_object(p)); break;
        case P_ENTER_ARR: LIB(o.ret = binson_parser_go_into_array(p)); break;
        case P_LEAVE_ARR: LIB(o.ret = binson_parser_leave_array(p)); break;
        case P_GET_NAME: { bbuf *b = nullptr; LIB(b = binson_parser_get_name(p)); check_span("get_name", b, o); o.ret = b != nullptr; break; }
        case P_GET_STRING: { bbuf *b = nullptr; LIB(b = binson_parser_get_string_bbuf(p)); check_span("get_string_bbuf", b, o); o.ret = b != nullptr; break; }
        case P_GET_BYTES: { bbuf *b = nullptr; LIB(b = binson_parser_get_bytes_bbuf(p)); check_span("get_bytes_bbuf", b, o); o.ret = b != nullptr; break; }
        case P_GET_RAW: {
            LIB(o.ret = binson_parser_get_raw(p, &raw));
            if (o.ret) check_span("get_raw", &raw, o);
            break;
        }
        case P_GET_INT: LIB(o.ival = binson_parser_get_integer(p)); o.ret = true; break;
        case P_GET_BOOL: LIB(o.ival = binson_parser_get_boolean(p) ? 1 : 0); o.ret = true; break;
        case P_GET_DOUBLE: { double d = 0; LIB(d = binson_parser_get_double(p)); memcpy(&o.dbits, &d, 8); o.ret = true; break; }
        case P_STR_EQ: {
            Bytes s = op.b; size_t z = 0; while (z < s.size() && s[z]) z++; s.resize(z);
            const char *sp = (const char *)cstr_arg(s, calls, arg);
            LIB(o.ret = binson_parser_string_equals(p, sp)); break;
        }
        case P_PRINT: {
            g_capture = &printed;
            LIB(o.ret = binson_parser_print(p));
            fflush(stdout);
            g_capture = nullptr;
            o.text = printed;
            break;
        }
        case P_TO_STRING: case P_TO_STRING_NULL: {
            size_t capn = op.code == P_TO_STRING_NULL ? 0 : (size_t)(op.a < 0 ? 0 : op.a);
            tsize = op.code == P_TO_STRING_NULL ? (size_t)(op.a < 0 ? 0 : op.a) : capn;   // NULL query: incoming *size is arbitrary
            if (op.code == P_TO_STRING) { outb = block_alloc(capn, 0); if (capn) memset(outb.p, 0xA5, capn); }
            LIB(o.ret = binson_parser_to_string(p, op.code == P_TO_STRING ? (char *)outb.p : nullptr, &tsize, op.c != 0));
            o.size_out = tsize;
            if (o.ret && op.code == P_TO_STRING) {
                size_t l = 0; while (l < capn && outb.p[l]) l++;
                o.text.assign((const char *)outb.p, l);
                if (l == capn) o.text += "<UNTERMINATED>";
            }
            break;
        }
        case P_TO_WRITER: {
            if (op.c == 1 && ext_writer) {       // a long-lived writer shared by several parsers / calls
                LIB(o.ret = binson_parser_to_writer(p, ext_writer));
                LIB(o.size_out = binson_writer_get_counter(ext_writer));
                uint32_t we = 0; memcpy(&we, &ext_writer->error_flags, 4);
                o.text = fmt("werr=%s shared-writer", err_name(we));
                break;
            }
            size_t capn = (size_t)(op.a < 0 ? 0 : op.a);
            wb = block_alloc(sizeof(binson_writer), 0); memset(wb.p, 0x5A, wb.n);
            uint8_t *dst;
            if (op.c == 2 && arena.p && tail_room) {   // the destination is the caller's room right behind the message, no gap
                capn = std::min(capn, tail_room); dst = arena.p + bblk.n; memset(dst, 0xA5, tail_room);
                bump(cnt, "probe.to_writer_destination_adjacent_to_message");
            } else { wdest = block_alloc(capn, 0); if (capn) memset(wdest.p, 0xA5, capn); dst = wdest.p; }
            sw = (binson_writer *)wb.p;
            LIB(binson_writer_init(sw, dst, capn));
            LIB(o.ret = binson_parser_to_writer(p, sw));
            LIB(o.size_out = binson_writer_get_counter(sw));
            uint32_t we = 0; memcpy(&we, &sw->error_flags, 4);
            size_t shown = std::min(o.size_out, capn);
            o.text = fmt("werr=%s wbytes=", err_name(we)) + to_hex(dst, shown);
            break;
        }
        default: o.skipped = true; break;
    }
    block_free(arg); block_free(outb); block_free(wdest); block_free(wb);
    slot_release();
}

Outcome PSession::call(const Op &op) {
    static thread_local Outcome cur;        // not automatic: survives the siglongjmp out of the token callback
    cur = Outcome();
    Outcome &o = cur;
    const char *name = (op.code >= 0 && op.code < OP__COUNT) ? OP_NAMES[op.code] : "?";
    if (dead) { o.skipped = true; return o; }
    // harness-level media operations
    if (op.code == H_SCRIBBLE) { scribble((uint64_t)op.a); o.skipped = true; return o; }
    if (op.code == H_ABANDON) { tr.add(tag + "ABANDON"); o.skipped = true; return o; }
    bool is_init = op.code == P_INIT_OBJ || op.code == P_INIT_ARR;
    if (!inited && !is_init) { o.skipped = true; return o; }        // nothing but init is defined on a never-initialised object
    if (is_lookup(op.code) && guard_lookups) {
        // documented precondition of field lookups: positioned inside an object (structural, independent of the parser's flags)
        bool in_error = err() != 0;
        if (!in_error) {
            if (labels.empty()) labels = label_offsets(copy, p->type == 2 /* as initialised */);
            size_t u = p->buffer_used;
            char l = u < labels.size() ? labels[u] : '?';
            if (l != 'o') { o.skipped = true; bump(cnt, "sloppy.lookup_guarded"); return o; }
        }
    }
    if (g_yield_hook) g_yield_hook(Y_CALL);
    bool was_latched = inited && err() != 0;
    size_t used_before = inited ? p->buffer_used : 0;
    cb_count = 0; park_count = 0; cb_last_used = used_before;
    budget = 2 * bblk.n + 16;       // every byte may be looked at once while parked in front of it and once when consumed
    calls++; steps++;
    if (was_latched && !is_restart(op.code)) post_error_calls++;

    if (inited && !is_init && use_cb) { p->cb = sim_cb; p->cb_context = this; }      // an application without a callback never touches the field
    g_cur_session = this;
    uint64_t gate0 = g_gate_hits.load();
    if (!guarded(op, o)) {
        // step budget exceeded inside the library call: deterministic liveness violation
        g_in_library = 0; g_cur_session = nullptr;
        slot_release();
        o.aborted = true; dead = true;
        sink.fail("C16.budget", fmt("%s made more than %llu token callbacks on a %zu-byte buffer without returning", name, (unsigned long long)budget, bblk.n));
        tr.add(tag + fmt("%s ABORTED cb>%llu", name, (unsigned long long)budget));
        bump(cnt, "c16.budget_abort");
        return o;
    }
    g_cur_session = nullptr;
    if (g_gate_hits.load() != gate0) sink.fail("C17.allocator_call", fmt("%s reached %s while inside the library", name, g_gate_last ? g_gate_last : "an allocator function"));
    if (o.skipped) return o;
    bump(cnt, std::string("api.") + name);
    if (is_init && use_cb) { p->cb = sim_cb; p->cb_context = this; }

    o.cb = cb_count; total_cb += cb_count; steps += cb_count;
    o.err = err(); o.used = p->buffer_used; o.depth = (unsigned)p->depth;
    latched = o.err != 0;
    if (latched && !was_latched && !first_err) { first_err = o.err; }
    if (latched && !was_latched) bump(cnt, std::string("err.first.") + err_name(o.err));

    // ---- event text (cursor and depth are part of the observable state only while no error is latched)
    std::string e = tag + name;
    if (op.a) e += fmt("(%lld)", (long long)op.a);
    if (!op.b.empty()) e += "[" + (op.b.size() > 24 ? fmt("%zu:%016llx", op.b.size(), (unsigned long long)fnv1a(op.b.data(), op.b.size())) : to_hex(op.b)) + "]";
    e += fmt(" -> %d e=%s", o.ret ? 1 : 0, err_name(o.err));
    if (!latched) e += fmt(" u=%zu d=%u", o.used, o.depth);
    e += fmt(" cb=%llu", (unsigned long long)o.cb);
    if (!use_cb && p->cb != nullptr) e += " CALLBACK-FIELD-NOT-NULL";     // the application never installed one: init / print / to_string must leave it cleared
    switch (op.code) {
        case P_DEPTH: if (!latched) e += fmt(" depth=%lld", (long long)o.ival); break;
        case P_GET_TYPE: e += fmt(" type=%d", o.type); break;
        case P_GET_INT: case P_GET_BOOL: e += fmt(" v=%lld", (long long)o.ival); break;
        case P_GET_DOUBLE: e += fmt(" v=%016llx", (unsigned long long)o.dbits); break;
        case P_GET_NAME: case P_GET_STRING: case P_GET_BYTES: case P_GET_RAW:
            if (o.isnull || !o.ret) e += " span=NULL"; else e += fmt(" span=%ld+%zu", o.span_off, o.span_len); break;
        case P_PRINT: e += " text=" + short_text(o.text); break;
        case P_TO_STRING: case P_TO_STRING_NULL: e += fmt(" size=%zu", o.size_out); if (o.ret) e += " text=" + short_text(o.text); break;
        case P_TO_WRITER: e += fmt(" counter=%zu ", o.size_out) + short_text(o.text); break;
        default: break;
    }
    tr.add(e);

    // ---- C16: linear work
    if (!is_init && op.code != P_PRINT && op.code != P_TO_STRING && op.code != P_TO_STRING_NULL) {
        if (op.code == P_VERIFY) {
            if (o.cb > bblk.n + 2) sink.fail("C16.linear.verify", fmt("verify made %llu callbacks on %zu bytes", (unsigned long long)o.cb, bblk.n));
        } else if (!was_latched && !latched) {
            long adv = (long)o.used - (long)used_before;
            uint64_t room = adv > 0 ? (uint64_t)adv : 0;
            uint64_t tokens = o.cb - park_count;
            if (tokens > room + 2) sink.fail("C16.linear.call", fmt("%s processed %llu tokens (%llu callbacks, %llu of them for a BEGIN left in place) while advancing %ld bytes", name, (unsigned long long)tokens, (unsigned long long)o.cb, (unsigned long long)park_count, adv));
            else if (park_count > tokens + 1) sink.fail("C16.linear.call", fmt("%s looked %llu times at a container BEGIN without consuming it, but processed only %llu tokens", name, (unsigned long long)park_count, (unsigned long long)tokens));
            uint64_t slack = tokens > room ? tokens - room : 0;
            if (slack > max_slack) max_slack = slack;
        }
    }
    // ---- C09: latch
    if (was_latched && !is_restart(op.code)) latch_monitor(op, o, was_latched);
    return o;
}

void PSession::latch_monitor(const Op &op, const Outcome &o, bool) {
    const char *name = OP_NAMES[op.code];
    if (is_advancing(op.code) && o.ret) sink.fail(std::string("C09.parser.advancing_true.") + name, fmt("%s returned true although error %s was latched", name, err_name(first_err)));
    switch (op.code) {
        case P_GET_TYPE: if (o.type != 0) sink.fail("C09.parser.getter.get_type", fmt("get_type=%d while an error is latched", o.type)); break;
        case P_GET_INT: if (o.ival != 0) sink.fail("C09.parser.getter.get_integer", "non-neutral integer while an error is latched"); break;
        case P_GET_BOOL: if (o.ival != 0) sink.fail("C09.parser.getter.get_boolean", "true while an error is latched"); break;
        case P_GET_DOUBLE: if (o.dbits != 0) sink.fail("C09.parser.getter.get_double", "non-neutral double while an error is latched"); break;
        case P_GET_NAME: if (o.ret) sink.fail("C09.parser.getter.get_name", "non-NULL name while an error is latched"); break;
        case P_GET_STRING: if (o.ret) sink.fail("C09.parser.getter.get_string_bbuf", "non-NULL string while an error is latched"); break;
        case P_GET_BYTES: if (o.ret) sink.fail("C09.parser.getter.get_bytes_bbuf", "non-NULL bytes while an error is latched"); break;
        case P_STR_EQ: if (o.ret) sink.fail("C09.parser.getter.string_equals", "string_equals true while an error is latched"); break;
        case P_TO_WRITER: if (o.size_out != 0) sink.fail("C09.parser.to_writer_wrote", "to_writer appended bytes while an error is latched"); break;
        default: break;
    }
    if (o.err == 0) sink.fail(std::string("C09.parser.flag_cleared.") + name, fmt("%s cleared the latched error", name));
}

// ================================================================ writer
WSession::~WSession() { block_free(wblk); block_free(dblk); for (auto &b : keep) block_free(b); }

void WSession::setup(uint64_t prefill) {
    wblk = block_alloc(sizeof(binson_writer), 0);
    fill_garbage(wblk.p, wblk.n, prefill);
    w = (binson_writer *)wblk.p;
    inited = false;
}
static void aux_build(std::vector<Bytes> &docs, std::vector<Bytes> &conts) {
    for (int v = 0; v < AUX_DOCS; v++) {
        Node root; root.t = V_OBJ;
        Node a; a.name = Bytes{'a'};
        switch (v) {
            case 0: { a.t = V_OBJ; Node b; b.t = V_INT; b.i = 1; b.name = Bytes{'b'}; a.kids.push_back(b); break; }
            case 1: a.t = V_OBJ; break;                       // empty object: the smallest container there is
            case 2: a.t = V_ARR; break;                       // empty array
            case 3: { a.t = V_ARR; Node x; x.t = V_ARR; Node y; y.t = V_OBJ; a.kids.push_back(x); a.kids.push_back(y); break; }
            case 4: { a.t = V_OBJ; Node b; b.t = V_STR; b.s.assign(130, (uint8_t)'x'); b.name = Bytes{'b'}; a.kids.push_back(b); break; }   // 2-byte length inside
            default: { a.t = V_ARR; for (int i = 0; i < 3; i++) { Node e; e.t = V_BYTES; e.s = Bytes{1, 2, 3}; a.kids.push_back(e); } break; }
        }
        Node c; c.t = V_INT; c.i = 2; c.name = Bytes{'c'};
        root.kids.push_back(a); root.kids.push_back(c);
        Bytes d; encode(root, d);
        docs.push_back(d);
        conts.push_back(Bytes(d.begin() + (long)root.kids[0].tok, d.begin() + (long)(root.kids[0].tok + root.kids[0].tok_len)));
    }
}
const Bytes &aux_doc(int v) { static std::vector<Bytes> d, c; if (d.empty()) aux_build(d, c); return d[(size_t)(((v % AUX_DOCS) + AUX_DOCS) % AUX_DOCS)]; }
Bytes aux_container(int v) { static std::vector<Bytes> d, c; if (d.empty()) aux_build(d, c); return c[(size_t)(((v % AUX_DOCS) + AUX_DOCS) % AUX_DOCS)]; }

uint32_t WSession::err() const { uint32_t e = 0; memcpy(&e, &w->error_flags, 4); return e; }
size_t WSession::counter() const { return w->buffer_used; }

Outcome WSession::call(const Op &op) {
    Outcome o;
    const char *name = (op.code >= 0 && op.code < OP__COUNT) ? OP_NAMES[op.code] : "?";
    if (!inited && op.code != W_INIT) { o.skipped = true; return o; }
    if (g_yield_hook) g_yield_hook(Y_CALL);
    bool was_latched = inited && err() != 0;
    ncalls++;
    uint64_t gate0 = g_gate_hits.load();
    Bytes before;
    if (was_latched && cap) before.assign(dblk.p, dblk.p + cap);
    Block arg;
    auto mkarg = [&](const Bytes &b, bool nul) { arg = block_alloc(b.size() + (nul ? 1 : 0), 0); if (!b.empty()) memcpy(arg.p, b.data(), b.size()); if (nul) arg.p[b.size()] = 0; };
    // op.c > 0: the value was prepared inside the destination buffer itself, `gap` bytes behind the place where its own
    // payload will go (in-place re-encoding; the writer moves with memmove). Only when it fits into the caller's buffer.
    auto alias_src = [&](const Bytes &b, size_t hdr) -> const uint8_t * {
        if (op.c <= 0 || !dblk.p) return nullptr;
        size_t at = counter() + hdr + (size_t)(op.c - 1);
        if (counter() > cap || at > cap || b.size() > cap - at) return nullptr;
        if (!b.empty()) { memcpy(dblk.p + at, b.data(), b.size()); memcpy(shadow.data() + at, b.data(), b.size()); if (!before.empty()) memcpy(before.data() + at, b.data(), b.size()); }
        bump(cnt, "probe.write_source_inside_destination");
        return dblk.p + at;
    };
    auto hdr_of = [](size_t len) -> size_t { return len <= 127 ? 2 : len <= 32767 ? 3 : 5; };
    auto cstr = [](Bytes b) { size_t z = 0; while (z < b.size() && b[z]) z++; b.resize(z); return b; };
    switch (op.code) {
        case W_INIT: {
            if (op.a < 0) {      // NULL destination: an API-declared error class (BINSON_ERROR_NULL latched by init itself)
                cap = 0; block_free(dblk);
                LIB(o.ret = binson_writer_init(w, nullptr, (size_t)(-op.a))); inited = true; break;
            }
            cap = (size_t)op.a;
            block_free(dblk); dblk = block_alloc(cap, 0); if (cap) memset(dblk.p, FILL, cap);
            shadow.assign(cap, (uint8_t)0xA5);
            LIB(o.ret = binson_writer_init(w, dblk.p, cap)); inited = true; break;
        }
        case W_RESET: LIB(o.ret = binson_writer_reset(w)); break;
        case W_OBJ_BEGIN: LIB(o.ret = binson_write_object_begin(w)); break;
        case W_OBJ_END: LIB(o.ret = binson_write_object_end(w)); break;
        case W_ARR_BEGIN: LIB(o.ret = binson_write_array_begin(w)); break;
        case W_ARR_END: LIB(o.ret = binson_write_array_end(w)); break;
        case W_BOOL: LIB(o.ret = binson_write_boolean(w, op.a != 0)); break;
        case W_INT: LIB(o.ret = binson_write_integer(w, op.a)); break;
        case W_DOUBLE: { double d; uint64_t bits = (uint64_t)op.a; memcpy(&d, &bits, 8); LIB(o.ret = binson_write_double(w, d)); break; }
        case W_STRING: { const char *sp = (const char *)cstr_arg(cstr(op.b), ncalls, arg); LIB(o.ret = binson_write_string(w, sp)); break; }
        case W_NAME: { const char *sp = (const char *)cstr_arg(cstr(op.b), ncalls, arg); LIB(o.ret = binson_write_name(w, sp)); break; }
        case W_TO_WRITER: {
            // binson_parser_to_writer with an auxiliary parser over {"a":{"b":1},"c":2}; op.a selects where that parser stands:
            // 0 on the scalar "c" (nothing to extract), 1 on the un-entered container "a", 2 parser with a latched error, 3 just initialised, 4 NULL parser
            // which document: op.a / 5 (empty containers, nested ones, longer ones: see aux_build)
            const Bytes &aux = aux_doc((int)(op.a / 5));
            binson_state ast[4]; binson_parser ap; memset(&ap, 0, sizeof ap); ap.state = ast; ap.max_depth = 4;
            int v = (int)(op.a % 5);
            LIB(binson_parser_init_object(&ap, aux.data(), aux.size()));
            if (v != 3) LIB(binson_parser_go_into_object(&ap));
            if (v == 0) { LIB(binson_parser_next(&ap)); LIB(binson_parser_next(&ap)); }
            if (v == 1) LIB(binson_parser_next(&ap));
            if (v == 2) LIB(binson_parser_next_ensure(&ap, BINSON_TYPE_BOOLEAN));
            LIB(o.ret = binson_parser_to_writer(v == 4 ? nullptr : &ap, w));
            break;
        }
        // op.c == -1 on an empty value: it has no storage, the caller passes a NULL pointer with length 0 (an empty std::vector's data())
        case W_STRING_LEN: { const uint8_t *src = alias_src(op.b, hdr_of(op.b.size())); if (!src) { mkarg(op.b, false); src = arg.p; } if (op.c == -1 && op.b.empty()) { src = nullptr; bump(cnt, "probe.write_empty_value_from_null_pointer"); } if (op.a > 0) bump(cnt, "probe.write_length_beyond_format_limit"); LIB(o.ret = binson_write_string_with_len(w, (const char *)src, op.b.size() + (op.a > 0 ? (size_t)op.a * 0x80000000ULL : 0))); break; }
        case W_BYTES: { const uint8_t *src = alias_src(op.b, hdr_of(op.b.size())); if (!src) { mkarg(op.b, false); src = arg.p; } if (op.c == -1 && op.b.empty()) { src = nullptr; bump(cnt, "probe.write_empty_value_from_null_pointer"); } if (op.a > 0) bump(cnt, "probe.write_length_beyond_format_limit"); LIB(o.ret = binson_write_bytes(w, src, op.b.size() + (op.a > 0 ? (size_t)op.a * 0x80000000ULL : 0))); break; }
        case W_RAW: {
            if (op.c == -2) {
                // the caller appends a copy of the first op.a bytes of its own output: the source IS the start of the writer's buffer
                size_t n = (size_t)std::max<int64_t>(op.a, 0);       // (the engine passes the length the reference decided on)
                const uint8_t *src;
                if (dblk.p && n <= cap) { src = dblk.p; bump(cnt, "probe.write_source_is_start_of_destination"); }
                else { mkarg(Bytes(n, 0x11), false); src = arg.p; }        // (the output did not fit: the writer is in error and stores nothing anyway)
                LIB(o.ret = binson_write_raw(w, src, n));
                break;
            }
            const uint8_t *src = alias_src(op.b, 0); if (!src) { mkarg(op.b, false); src = arg.p; } LIB(o.ret = binson_write_raw(w, src, op.b.size())); break; }
        case W_VERIFY:
            if (err() != 0 || counter() > cap) { o.skipped = true; break; }
            LIB(o.ret = binson_writer_verify(w)); break;
        case W_COUNTER: LIB(o.size_out = binson_writer_get_counter(w)); o.ret = true; break;
        case W_STRING_NULL: LIB(o.ret = binson_write_string(w, nullptr)); break;
        case W_RAW_NULL: LIB(o.ret = binson_write_raw(w, nullptr, (size_t)(op.a & 0xff))); break;
        default: o.skipped = true; break;
    }
    block_free(arg);
    slot_release();
    if (g_gate_hits.load() != gate0) sink.fail("C17.allocator_call", fmt("%s reached %s while inside the library", name, g_gate_last ? g_gate_last : "an allocator function"));
    if (o.skipped) return o;
    bump(cnt, std::string("api.") + name);
    o.err = err(); o.used = counter();
    latched = o.err != 0;
    if (latched && !was_latched) bump(cnt, std::string("werr.first.") + err_name(o.err));
    std::string e = tag + name;
    if (op.a) e += fmt("(%lld)", (long long)op.a);
    if (!op.b.empty()) e += "[" + (op.b.size() > 24 ? fmt("%zu:%016llx", op.b.size(), (unsigned long long)fnv1a(op.b.data(), op.b.size())) : to_hex(op.b)) + "]";
    e += fmt(" -> %d e=%s counter=%zu", o.ret ? 1 : 0, err_name(o.err), o.used);
    tr.add(e);
    // ---- C09 writer latch: nothing is stored, every write returns false, flag stays
    bool is_write = op.code >= W_OBJ_BEGIN && op.code <= W_TO_WRITER && op.code != W_VERIFY && op.code != W_COUNTER;
    if (was_latched && is_write) {
        if (o.ret) sink.fail(std::string("C09.writer.write_true.") + name, "a write returned true after an earlier write had failed");
        if (cap && memcmp(before.data(), dblk.p, cap) != 0) sink.fail(std::string("C09.writer.stored.") + name, "a write stored bytes after an earlier write had failed");
        if (o.err == 0) sink.fail(std::string("C09.writer.flag_cleared.") + name, "a write cleared the latched error");
    }
    return o;
}
