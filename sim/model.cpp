// model.cpp - reference model (written independently of src/binson_*.c)
#include "model.hpp"
#include <cstdio>

// ---------------------------------------------------------------- interesting scalars
int64_t interesting_int(Rng &r) {
    static const int64_t edges[] = {0, 1, -1, 127, 128, -128, -129, 255, 256, 32767, 32768, -32768, -32769, 65535, 65536,
                                    2147483647LL, 2147483648LL, -2147483648LL, -2147483649LL, 4294967295LL, 4294967296LL,
                                    INT64_MAX, INT64_MIN, INT64_MAX - 1, INT64_MIN + 1};
    switch (r.below(5)) {
        case 4: {       // decimal boundaries (printing): +-10^k and neighbours
            int k = (int)r.below(19); int64_t p = 1; for (int i = 0; i < k; i++) p *= 10;
            int64_t v = p + (int64_t)r.below(3) - 1; return r.chance(1, 2) ? v : -v;
        }
        case 0: if (r.chance(1, 3)) return (int64_t)r.below(48);      // small values: offsets, lengths and depths of small documents
                return edges[r.below(sizeof edges / sizeof edges[0])];
        case 1: { int64_t e = edges[r.below(sizeof edges / sizeof edges[0])]; int64_t d = (int64_t)r.below(5) - 2;
                  if ((d > 0 && e > INT64_MAX - d) || (d < 0 && e < INT64_MIN - d)) return e;
                  return e + d; }
        case 2: { int bits = 1 + (int)r.below(63); uint64_t v = r.next() >> (64 - bits); return r.chance(1, 2) ? (int64_t)v : -(int64_t)v; }
        default: return (int64_t)r.next();
    }
}

uint64_t interesting_double(Rng &r) {
    static const uint64_t pats[] = {0x0000000000000000ULL, 0x8000000000000000ULL, 0x3ff0000000000000ULL, 0xbff0000000000000ULL,
                                    0x7ff0000000000000ULL, 0xfff0000000000000ULL, 0x7ff8000000000000ULL, 0x7ff0000000000001ULL,
                                    0xfff8dead0000beefULL, 0x7fe1ccf385ebc8a0ULL /*1e308*/, 0x0000000000000001ULL, 0x400921fb54442d18ULL,
                                    0x3fb999999999999aULL, 0xc1e0000000000000ULL};
    // values at which the TEXT of a number changes its length: powers of ten 1e-7..1e22 (as bit patterns: no floating-point
    // arithmetic in a generator, its result must not depend on the compiler), just below a power of ten by less than the six
    // printed decimals (rounds up to one more digit), powers of two around the integer widths, the extremes
    static const uint64_t edge[] = {
        0x3e7ad7f29abcaf48ULL, 0x3eb0c6f7a0b5ed8dULL, 0x3ee4f8b588e368f1ULL, 0x3f1a36e2eb1c432dULL, 0x3f50624dd2f1a9fcULL, 0x3f847ae147ae147bULL,
        0x3fb999999999999aULL, 0x3ff0000000000000ULL, 0x4024000000000000ULL, 0x4059000000000000ULL, 0x408f400000000000ULL, 0x40c3880000000000ULL,
        0x40f86a0000000000ULL, 0x412e848000000000ULL, 0x416312d000000000ULL, 0x4197d78400000000ULL, 0x41cdcd6500000000ULL, 0x4202a05f20000000ULL,
        0x42374876e8000000ULL, 0x426d1a94a2000000ULL, 0x42a2309ce5400000ULL, 0x42d6bcc41e900000ULL, 0x430c6bf526340000ULL, 0x4341c37937e08000ULL,
        0x4376345785d8a000ULL, 0x43abc16d674ec800ULL, 0x43e158e460913d00ULL, 0x4415af1d78b58c40ULL, 0x444b1ae4d6e2ef50ULL, 0x4480f0cf064dd592ULL,
        0x3feffffef39085f5ULL, 0x3fefffff29406b2aULL, 0x4023ffffef39085fULL, 0x4023fffff29406b3ULL, 0x4058fffffde7210cULL, 0x4058fffffe5280d6ULL,
        0x408f3fffffbce421ULL, 0x408f3fffffca501bULL, 0x40c387fffffbce42ULL, 0x40c387fffffca502ULL, 0x40f869ffffff79c8ULL, 0x40f869ffffff94a0ULL,
        0x412e847fffffef39ULL, 0x412e847ffffff294ULL, 0x416312cffffffef4ULL, 0x416312cfffffff29ULL, 0x4197d783ffffffdeULL, 0x4197d783ffffffe5ULL,
        0x41cdcd64fffffffcULL, 0x41cdcd64fffffffdULL, 0x41e0000000000000ULL, 0x41f0000000000000ULL, 0x4330000000000000ULL, 0x4340000000000000ULL,
        0x43d0000000000000ULL, 0x43e0000000000000ULL, 0x43f0000000000000ULL, 0x4400000000000000ULL, 0x4630000000000000ULL, 0x7fe0000000000000ULL,
        0x43e56a95319d63e1ULL, 0x43efffffffffffffULL, 0x3fe0000000000000ULL, 0x3ea0c6f7a0b5ed8dULL, 0x3ea07111652d2b5cULL, 0x0010000000000000ULL,
        0x7fefffffffffffffULL, 0x44b52d02c7e14af6ULL, 0x54b249ad2594c37dULL, 0x7e37e43c8800759cULL};
    unsigned c = (unsigned)r.below(100);
    if (c < 35) return pats[r.below(sizeof pats / sizeof pats[0])];
    if (c < 65) {
        uint64_t v = edge[r.below(sizeof edge / sizeof edge[0])];
        unsigned t = (unsigned)r.below(8);
        if (t == 0) v += 1 + r.below(3); else if (t == 1) v -= 1 + r.below(3);        // a few ulps beside it
        else if (t == 2) v += r.below(1ULL << 50);                                     // same magnitude, other digits
        if (r.chance(1, 2)) v |= 0x8000000000000000ULL;
        return v;
    }
    return r.next();
}

static uint8_t alpha_byte(Rng &r, int alphabet) {
    static const uint8_t small[] = {0x00, 'a', 'b', 0x7f, 0x80, 0xff};
    switch (alphabet) {
        case 0: return small[r.below(6)];
        case 1: return (uint8_t)('a' + r.below(26));
        default: return (uint8_t)r.below(256);
    }
}

Bytes gen_bytes(Rng &r, const GenKnobs &k, int maxlen) {
    size_t len;
    unsigned c = (unsigned)r.below(100);
    if (k.long_strings >= 1 && c >= 96) {            // lengths around powers of two and small multiples that are NOT encoding boundaries
        static const size_t L[] = {255, 256, 257, 511, 512, 1022, 1023, 1024, 1025, 2044, 2048, 4095, 4096, 4097};
        len = L[r.below(14)];
    }
    else if (k.long_strings == 3 && c < 3) len = 65530 + r.below(12);            // around 2^16: beyond every Binson width boundary, a classic 16-bit counter trap
    else if (k.long_strings >= 2 && c < 4) len = 32760 + r.below(16);
    else if (k.long_strings >= 1 && c < 12) len = 120 + r.below(16);
    else if (c < 30) len = 0;
    else len = r.below((uint64_t)maxlen + 1);
    Bytes b(len);
    for (size_t i = 0; i < len; i++) b[i] = alpha_byte(r, k.alphabet);
    return b;
}

// ---------------------------------------------------------------- generator
void pick_name_family(Rng &r, GenKnobs &k) {
    static const int L[] = {3, 4, 5, 7, 8, 9, 11, 12, 13, 15, 16, 17, 20, 23, 24, 25, 31, 32, 33, 40};
    int n = L[r.below(20)];
    bool ascii = r.chance(2, 3);
    k.stem.clear();
    for (int i = 0; i < n; i++) k.stem.push_back(ascii ? (r.chance(1, 7) ? (uint8_t)'_' : (uint8_t)('a' + r.below(26))) : (uint8_t)(1 + r.below(255)));
    k.stem_pct = 40 + (int)r.below(60);
}

static Bytes gen_name(Rng &r, const GenKnobs &k, const std::vector<Bytes> &existing) {
    for (int attempt = 0; attempt < 50; attempt++) {
        Bytes n;
        if (!k.stem.empty() && r.chance((unsigned)k.stem_pct, 100)) {
            // a family of names: common stem (or a prefix of it) + a short tail, the way real field names look
            // ("certificate_chain_1" / "certificate_chain_2"); comparisons then run over long equal prefixes
            n = k.stem;
            if (r.chance(1, 6)) n.resize(r.below(n.size() + 1));
            size_t tl = r.below(9);
            for (size_t i = 0; i < tl; i++) n.push_back(r.chance(1, 3) ? (uint8_t)('0' + r.below(10)) : alpha_byte(r, k.alphabet));
        } else if (!existing.empty() && r.chance(35, 100)) {
            n = existing[r.below(existing.size())];          // prefix / extension of a present name
            if (!n.empty() && r.chance(1, 2)) n.pop_back();
            else n.push_back(alpha_byte(r, k.alphabet));
        } else {
            GenKnobs kk = k;
            if (r.chance(3, 4)) kk.long_strings = 0;       // names take part in the length boundaries too (2- and 4-byte length prefixes)
            n = gen_bytes(r, kk, 4);
        }
        if (!k.names_nul) for (auto &c : n) if (c == 0) c = 'z';
        if (std::find(existing.begin(), existing.end(), n) == existing.end()) return n;
    }
    Bytes n;                                                 // fallback: unique by construction
    size_t v = existing.size() + 1;
    n.push_back('u');
    while (v) { n.push_back((uint8_t)('0' + v % 10)); v /= 10; }
    return n;
}

static void gen_value(Rng &r, const GenKnobs &k, Node &n, int &budget, int od, int ad);

static void gen_container_body(Rng &r, const GenKnobs &k, Node &n, int &budget, int od, int ad) {
    if (r.chance((unsigned)k.p_empty, 100)) return;
    if (k.wide > 0 && budget > 0 && r.chance(1, 3)) {
        // one container with more children than an 8-bit (or 5-, 6-, 7-bit) counter can count; scalars only
        int want = k.wide;
        for (int i = 0; i < want; i++) {
            Node c; c.t = r.chance(1, 2) ? V_INT : V_BOOL; c.i = i; c.b = (i & 1) != 0;
            if (n.t == V_OBJ) { c.name = Bytes{(uint8_t)('a' + i / 676 % 26), (uint8_t)('a' + i / 26 % 26), (uint8_t)('a' + i % 26)}; }
            n.kids.push_back(c);
        }
        const_cast<GenKnobs &>(k).wide = 0;      // once per document
        return;
    }
    int want = 1 + (int)r.below((uint64_t)std::max(1, k.max_kids));
    if (n.t == V_OBJ) {
        std::vector<Bytes> names;
        for (int i = 0; i < want && budget > 0; i++) names.push_back(gen_name(r, k, names));
        std::sort(names.begin(), names.end());
        for (auto &nm : names) {
            if (budget <= 0) break;
            Node c; c.name = nm; budget--;
            gen_value(r, k, c, budget, od, ad);
            if (!n.kids.empty() && !n.kids.back().is_container() && r.chance(1, 8)) { Bytes keep = c.name; c = n.kids.back(); c.name = keep; if (r.chance(1, 2)) { c.d ^= 0x8000000000000000ULL; if (c.i != INT64_MIN) c.i = -c.i; } }
            else if (c.t == V_STR && !names.empty() && r.chance(1, 6)) c.s = names[r.below(names.size())];      // a string value equal to a field name
            n.kids.push_back(std::move(c));
        }
    } else {
        for (int i = 0; i < want && budget > 0; i++) {
            Node c; budget--;
            gen_value(r, k, c, budget, od, ad);
            if (i > 0 && !n.kids.back().is_container() && r.chance(1, 5)) {
                // neighbours that are equal, or equal "up to something": same value, negated, off by one, +0.0 / -0.0
                c = n.kids.back();
                switch (r.below(4)) { case 0: break; case 1: c.d ^= 0x8000000000000000ULL; if (c.i != INT64_MIN) c.i = -c.i; c.b = !c.b; break; case 2: if (c.i < INT64_MAX) c.i++; c.d++; if (!c.s.empty()) c.s.back() ^= 1; break; default: if (!c.s.empty()) c.s.pop_back(); else c.s.push_back(0); c.d = 0x8000000000000000ULL; break; }
            }
            n.kids.push_back(std::move(c));
        }
    }
}

static void gen_value(Rng &r, const GenKnobs &k, Node &n, int &budget, int od, int ad) {
    bool container = budget > 0 && r.chance((unsigned)k.p_container, 100);
    if (container) {
        bool obj = r.chance(1, 2);
        if (obj && od <= 0) obj = false;
        if (!obj && ad <= 0) { if (od > 0) obj = true; else container = false; }
        if (container) {
            n.t = obj ? V_OBJ : V_ARR;
            // arrays nested directly in arrays share one parser level; objects reset the array budget
            gen_container_body(r, k, n, budget, obj ? od - 1 : od, obj ? k.max_arr_depth : ad - 1);
            return;
        }
    }
    switch (r.below(5)) {
        case 0: n.t = V_BOOL; n.b = r.chance(1, 2); break;
        case 1: n.t = V_INT; n.i = interesting_int(r); break;
        case 2: n.t = V_DBL; n.d = interesting_double(r); break;
        case 3: n.t = V_STR; n.s = gen_bytes(r, k, 6); break;
        default: n.t = V_BYTES; n.s = gen_bytes(r, k, 6); break;
    }
}

Node gen_tree(Rng &r, const GenKnobs &k, bool array_root) {
    Node root;
    root.t = array_root ? V_ARR : V_OBJ;
    int budget = k.max_nodes;
    GenKnobs kk = k;
    kk.p_empty = k.p_empty / 3;         // the root itself is rarely empty
    gen_container_body(r, kk, root, budget, k.max_obj_depth - (array_root ? 0 : 1) , k.max_arr_depth - (array_root ? 1 : 0));
    // children were generated with the root's reduced p_empty; acceptable
    if (k.long_strings >= 1 && !root.kids.empty()) {
        // the longest token of the document sometimes sits at its very end (last value of the root: only the closing byte
        // follows it), where "does it still fit" arithmetic has no slack
        Rng re = r.fork("edge");
        if (re.chance(1, 3)) {
            Node *longest = nullptr;
            std::vector<Node *> todo{&root};
            while (!todo.empty()) { Node *n = todo.back(); todo.pop_back(); for (auto &c : n->kids) { if ((c.t == V_STR || c.t == V_BYTES) && c.s.size() >= 100 && (!longest || c.s.size() > longest->s.size())) longest = &c; todo.push_back(&c); } }
            if (longest && longest != &root.kids.back()) {
                Node tail; tail.t = longest->t; tail.s = longest->s;
                longest->s.resize(3);
                if (!array_root) { tail.name = root.kids.back().name; tail.name.push_back(0xff); }
                root.kids.push_back(tail);
            }
        }
    }
    return root;
}

// ---------------------------------------------------------------- encoder
int int_width(int64_t v) {
    if (v >= -128 && v <= 127) return 1;
    if (v >= -32768 && v <= 32767) return 2;
    if (v >= -2147483648LL && v <= 2147483647LL) return 4;
    return 8;
}
static void put_le(Bytes &out, uint64_t v, int w) { for (int i = 0; i < w; i++) { out.push_back((uint8_t)(v & 0xff)); v >>= 8; } }
void enc_int(Bytes &out, int64_t v) {
    int w = int_width(v);
    out.push_back((uint8_t)(0x10 + (w == 1 ? 0 : w == 2 ? 1 : w == 4 ? 2 : 3)));
    put_le(out, (uint64_t)v, w);
}
void enc_len(Bytes &out, uint8_t base, size_t len) {
    int w = int_width((int64_t)len);
    out.push_back((uint8_t)(base + (w == 1 ? 0 : w == 2 ? 1 : 2)));
    put_le(out, (uint64_t)len, w);
}

static void enc_node(Node &n, Bytes &out, std::vector<Piece> *pieces) {
    auto piece = [&](size_t from) { if (pieces) pieces->push_back(Piece{from, out.size() - from}); };
    n.tok = out.size();
    switch (n.t) {
        case V_OBJ: case V_ARR: {
            size_t p0 = out.size();
            out.push_back(n.t == V_OBJ ? 0x40 : 0x42); piece(p0);
            for (auto &c : n.kids) {
                if (n.t == V_OBJ) {
                    c.name_tok = out.size();
                    size_t p1 = out.size();
                    enc_len(out, 0x14, c.name.size()); piece(p1);
                    c.name_off = out.size(); c.name_len = c.name.size();
                    if (!c.name.empty()) { size_t p2 = out.size(); out.insert(out.end(), c.name.begin(), c.name.end()); piece(p2); }
                }
                enc_node(c, out, pieces);
            }
            size_t p3 = out.size();
            out.push_back(n.t == V_OBJ ? 0x41 : 0x43); piece(p3);
            break;
        }
        case V_BOOL: { size_t p = out.size(); out.push_back(n.b ? 0x44 : 0x45); piece(p); break; }
        case V_INT: { size_t p = out.size(); enc_int(out, n.i); piece(p); break; }
        case V_DBL: { size_t p = out.size(); out.push_back(0x46); put_le(out, n.d, 8); piece(p); break; }
        case V_STR: case V_BYTES: {
            size_t p = out.size();
            enc_len(out, n.t == V_STR ? 0x14 : 0x18, n.s.size()); piece(p);
            n.pay_off = out.size(); n.pay_len = n.s.size();
            if (!n.s.empty()) { size_t p2 = out.size(); out.insert(out.end(), n.s.begin(), n.s.end()); piece(p2); }
            break;
        }
    }
    n.tok_len = out.size() - n.tok;
}

void encode(Node &root, Bytes &out, std::vector<Piece> *pieces) {
    out.clear();
    if (pieces) pieces->clear();
    enc_node(root, out, pieces);
}

// ---------------------------------------------------------------- decoder (valid documents only)
struct Dec { const Bytes &in; size_t pos; int depth; };

static bool dec_int_raw(Dec &d, int w, int64_t &v) {
    if (d.pos + (size_t)w > d.in.size()) return false;
    uint64_t u = 0;
    for (int i = w - 1; i >= 0; i--) u = (u << 8) | d.in[d.pos + (size_t)i];
    if (w < 8 && (u >> (8 * w - 1)) & 1) u |= ~0ULL << (8 * w);
    v = (int64_t)u; d.pos += (size_t)w;
    return true;
}

static bool dec_value(Dec &d, Node &n);

static bool dec_blob(Dec &d, uint8_t tb, Bytes &s, size_t &pay_off) {
    int w = 1 << (tb & 3);
    int64_t len;
    if (w > 4 || !dec_int_raw(d, w, len)) return false;
    if (len < 0 || (uint64_t)len > d.in.size() - d.pos) return false;
    pay_off = d.pos;
    s.assign(d.in.begin() + (long)d.pos, d.in.begin() + (long)(d.pos + (size_t)len));
    d.pos += (size_t)len;
    return true;
}

static bool dec_value(Dec &d, Node &n) {
    if (d.pos >= d.in.size() || d.depth > 2000) return false;
    n.tok = d.pos;
    uint8_t tb = d.in[d.pos++];
    switch (tb) {
        case 0x40: {
            n.t = V_OBJ; d.depth++;
            while (true) {
                if (d.pos >= d.in.size()) return false;
                if (d.in[d.pos] == 0x41) { d.pos++; break; }
                Node c;
                c.name_tok = d.pos;
                uint8_t nb = d.in[d.pos++];
                if (nb < 0x14 || nb > 0x16) return false;
                if (!dec_blob(d, nb, c.name, c.name_off)) return false;
                c.name_len = c.name.size();
                if (!dec_value(d, c)) return false;
                n.kids.push_back(std::move(c));
            }
            d.depth--;
            break;
        }
        case 0x42: {
            n.t = V_ARR; d.depth++;
            while (true) {
                if (d.pos >= d.in.size()) return false;
                if (d.in[d.pos] == 0x43) { d.pos++; break; }
                Node c;
                if (!dec_value(d, c)) return false;
                n.kids.push_back(std::move(c));
            }
            d.depth--;
            break;
        }
        case 0x44: n.t = V_BOOL; n.b = true; break;
        case 0x45: n.t = V_BOOL; n.b = false; break;
        case 0x46: { n.t = V_DBL; int64_t v; if (!dec_int_raw(d, 8, v)) return false; n.d = (uint64_t)v; break; }
        case 0x10: case 0x11: case 0x12: case 0x13: { n.t = V_INT; if (!dec_int_raw(d, 1 << (tb & 3), n.i)) return false; break; }
        case 0x14: case 0x15: case 0x16: { n.t = V_STR; if (!dec_blob(d, tb, n.s, n.pay_off)) return false; n.pay_len = n.s.size(); break; }
        case 0x18: case 0x19: case 0x1a: { n.t = V_BYTES; if (!dec_blob(d, tb, n.s, n.pay_off)) return false; n.pay_len = n.s.size(); break; }
        default: return false;
    }
    n.tok_len = d.pos - n.tok;
    return true;
}

bool decode(const Bytes &in, bool array_root, Node &root) {
    Dec d{in, 0, 0};
    root = Node();
    if (in.empty() || in[0] != (array_root ? 0x42 : 0x40)) return false;
    if (!dec_value(d, root)) return false;
    return d.pos == in.size();
}

// ---------------------------------------------------------------- misc
int count_nodes(const Node &n) { int c = 1; for (auto &k : n.kids) c += count_nodes(k); return c; }

static int obj_depth_below(const Node &n) {      // max number of nested objects strictly inside n, counting n if object
    int best = 0;
    for (auto &k : n.kids) best = std::max(best, obj_depth_below(k));
    return best + (n.t == V_OBJ ? 1 : 0);
}
int need_depth(const Node &root, bool array_root) {
    // object root: levels = nested objects incl. root; array root: one level for the array itself plus objects inside
    int d = obj_depth_below(root);
    return array_root ? d + 1 : d;
}
int arr_depth(const Node &n) {
    int best = 0;
    for (auto &k : n.kids) best = std::max(best, arr_depth(k));
    if (n.t == V_ARR) return best + 1;
    return best;       // note: counts arrays across object boundaries too (upper bound)
}

static void tree_text_rec(const Node &n, std::string &s, size_t limit) {
    if (s.size() > limit) return;
    switch (n.t) {
        case V_OBJ:
            s += "{";
            for (size_t i = 0; i < n.kids.size(); i++) { if (i) s += ","; s += "x" + to_hex(n.kids[i].name) + ":"; tree_text_rec(n.kids[i], s, limit); }
            s += "}"; break;
        case V_ARR:
            s += "[";
            for (size_t i = 0; i < n.kids.size(); i++) { if (i) s += ","; tree_text_rec(n.kids[i], s, limit); }
            s += "]"; break;
        case V_BOOL: s += n.b ? "T" : "F"; break;
        case V_INT: s += std::to_string((long long)n.i); break;
        case V_DBL: s += fmt("d%016llx", (unsigned long long)n.d); break;
        case V_STR: s += "s" + (n.s.size() > 16 ? fmt("<%zu>", n.s.size()) : to_hex(n.s)); break;
        case V_BYTES: s += "b" + (n.s.size() > 16 ? fmt("<%zu>", n.s.size()) : to_hex(n.s)); break;
    }
}
std::string tree_text(const Node &n, int limit) { std::string s; tree_text_rec(n, s, (size_t)limit); if (s.size() > (size_t)limit) { s.resize((size_t)limit); s += "..."; } return s; }

// ---------------------------------------------------------------- structural labels (tolerant)
std::string label_offsets(const Bytes &doc, bool array_root) {
    std::string lab(doc.size() + 1, '?');
    std::string stack;              // kinds of open containers
    std::vector<char> expect_field; // per object level: true if a name is due
    size_t pos = 0;
    bool started = false, finished = false;
    auto setlab = [&](size_t from, size_t to, char c) { for (size_t i = from; i < to && i < lab.size(); i++) lab[i] = c; };
    while (pos < doc.size()) {
        char cur = stack.empty() ? 't' : stack.back();
        if (finished) { setlab(pos, lab.size(), 't'); return lab; }
        uint8_t tb = doc[pos];
        if (!started) {
            if (tb != (array_root ? 0x42 : 0x40)) return lab;
            lab[pos] = 't';
            stack.push_back(array_root ? 'a' : 'o'); expect_field.push_back(true);
            started = true; pos++;
            continue;
        }
        bool in_obj = cur == 'o';
        bool want_name = in_obj && expect_field.back();
        size_t start = pos;
        if (want_name) {
            if (tb == 0x41) { lab[pos] = 'o'; stack.pop_back(); expect_field.pop_back(); pos++; if (stack.empty()) finished = true; else if (stack.back() == 'o') expect_field.back() = true; continue; }
            if (tb < 0x14 || tb > 0x16) return lab;
        }
        size_t tlen = 0;
        switch (tb) {
            case 0x40: lab[pos] = cur; stack.push_back('o'); expect_field.push_back(true); pos++; continue;
            case 0x42: lab[pos] = cur; stack.push_back('a'); expect_field.push_back(false); pos++; continue;
            case 0x41: return lab;      // END where a value is due / inside array
            case 0x43:
                if (cur != 'a') return lab;
                lab[pos] = 'a'; stack.pop_back(); expect_field.pop_back(); pos++;
                if (stack.empty()) finished = true; else if (stack.back() == 'o') expect_field.back() = true;
                continue;
            case 0x44: case 0x45: tlen = 1; break;
            case 0x46: tlen = 9; break;
            case 0x10: case 0x11: case 0x12: case 0x13: tlen = 1 + (1u << (tb & 3)); break;
            case 0x14: case 0x15: case 0x16: case 0x18: case 0x19: case 0x1a: {
                int w = 1 << (tb & 3);
                if (pos + 1 + (size_t)w > doc.size()) return lab;
                uint64_t u = 0;
                for (int i = w - 1; i >= 0; i--) u = (u << 8) | doc[pos + 1 + (size_t)i];
                if ((u >> (8 * w - 1)) & 1) return lab;     // negative length
                tlen = 1 + (size_t)w + (size_t)u;
                break;
            }
            default: return lab;
        }
        if (tlen > doc.size() - pos) return lab;
        setlab(start, start + tlen, cur);
        pos += tlen;
        if (in_obj) expect_field.back() = !want_name ? true : false;
    }
    if (finished) lab[doc.size()] = 't';
    return lab;
}

// ---------------------------------------------------------------- media faults
static void token_starts(const Bytes &doc, std::vector<size_t> &starts) {
    // best-effort linear scan (ignores nesting): good enough to bias faults toward type bytes and length prefixes
    size_t pos = 0;
    while (pos < doc.size()) {
        starts.push_back(pos);
        uint8_t tb = doc[pos];
        size_t tlen = 1;
        if (tb == 0x46) tlen = 9;
        else if (tb >= 0x10 && tb <= 0x13) tlen = 1 + (1u << (tb & 3));
        else if ((tb >= 0x14 && tb <= 0x16) || (tb >= 0x18 && tb <= 0x1a)) {
            int w = 1 << (tb & 3);
            if (pos + 1 + (size_t)w > doc.size()) break;
            uint64_t u = 0;
            for (int i = w - 1; i >= 0; i--) u = (u << 8) | doc[pos + 1 + (size_t)i];
            if (u > doc.size()) break;
            tlen = 1 + (size_t)w + (size_t)u;
        }
        pos += tlen;
    }
}

std::string fault_apply(Rng &r, Bytes &doc, int kind, const Bytes *other) {
    static const uint8_t subs[] = {0x40, 0x41, 0x42, 0x43, 0x44, 0x45, 0x46, 0x10, 0x11, 0x12, 0x13, 0x14, 0x15, 0x16, 0x18, 0x19, 0x1a,
                                   0x00, 0x01, 0x7f, 0x80, 0xff, 0x17, 0x1b, 0x47};
    if (doc.empty()) return "";
    switch (kind) {
        case 1: {   // F1 truncation / EOF
            size_t k = r.below(doc.size());
            bool keep_end = r.chance(2, 3) && doc.size() >= 2;
            uint8_t last = doc.back();
            doc.resize(k);
            if (keep_end) { doc.push_back(last); return fmt("F1:trunc@%zu+end", k); }
            return fmt("F1:trunc@%zu", k);
        }
        case 2: {   // F2 stored-byte corruption
            std::vector<size_t> ts; token_starts(doc, ts);
            size_t off;
            unsigned c = (unsigned)r.below(100);
            if (c < 40 && !ts.empty()) off = ts[r.below(ts.size())];                             // a type byte
            else if (c < 75 && !ts.empty()) { off = ts[r.below(ts.size())] + 1 + r.below(2); if (off >= doc.size()) off = doc.size() - 1; }  // a length / value byte
            else off = r.below(doc.size());
            unsigned m = (unsigned)r.below(100);
            if (m >= 85 && m < 95 && !ts.empty()) {
                // a length / integer field that is a small NEGATIVE number when read as signed, written over the field's full width
                size_t t0 = ts[r.below(ts.size())];
                int w = 0;
                switch (doc[t0]) { case 0x10: case 0x14: case 0x18: w = 1; break; case 0x11: case 0x15: case 0x19: w = 2; break; case 0x12: case 0x16: case 0x1a: w = 4; break; case 0x13: w = 8; break; default: break; }
                if (w && t0 + 1 + (size_t)w <= doc.size()) {
                    int64_t v = -(int64_t)(1 + r.below(r.chance(1, 2) ? 4 : 24));
                    for (int i = 0; i < w; i++) doc[t0 + 1 + (size_t)i] = (uint8_t)((uint64_t)v >> (8 * i));
                    return fmt("F2:neg@%zu=%lld/%d", t0 + 1, (long long)v, w);
                }
            }
            if (m < 35) { int bit = (int)r.below(8); doc[off] ^= (uint8_t)(1u << bit); return fmt("F2:flip@%zu.%d", off, bit); }
            if (m < 80) { uint8_t v = subs[r.below(sizeof subs)]; doc[off] = v; return fmt("F2:set@%zu=%02x", off, v); }
            if (m < 85 && off + 4 <= doc.size()) { doc[off] = 0xff; doc[off + 1] = 0xff; doc[off + 2] = 0xff; doc[off + 3] = 0x7f; return fmt("F2:hugelen@%zu", off); }
            { uint8_t v = (uint8_t)r.below(256); doc[off] = v; return fmt("F2:set@%zu=%02x", off, v); }
        }
        case 3: {   // F3 reorder / duplicate / drop / insert in transit
            unsigned m = (unsigned)r.below(4);
            size_t off = r.below(doc.size());
            if (m == 0 && doc.size() >= 2) { if (off + 1 >= doc.size()) off = doc.size() - 2; std::swap(doc[off], doc[off + 1]); return fmt("F3:swap@%zu", off); }
            if (m == 1) { size_t n = 1 + r.below(std::min<size_t>(8, doc.size() - off)); Bytes chunk(doc.begin() + (long)off, doc.begin() + (long)(off + n)); doc.insert(doc.begin() + (long)off, chunk.begin(), chunk.end()); return fmt("F3:dup@%zu+%zu", off, n); }
            if (m == 2) { size_t n = 1 + r.below(std::min<size_t>(8, doc.size() - off)); doc.erase(doc.begin() + (long)off, doc.begin() + (long)(off + n)); return fmt("F3:drop@%zu+%zu", off, n); }
            { uint8_t v = subs[r.below(17)]; doc.insert(doc.begin() + (long)off, v); return fmt("F3:ins@%zu=%02x", off, v); }
        }
        case 4: {   // F4 torn update: prefix of `other` over the same buffer
            if (!other || other->empty()) return "";
            size_t k = 1 + r.below(std::min(doc.size(), other->size()));
            for (size_t i = 0; i < k; i++) doc[i] = (*other)[i];
            return fmt("F4:torn@%zu", k);
        }
    }
    return "";
}
