// plan.cpp - text form of ops and plans (the replay file format)
#include "core.hpp"
#include <cstdarg>
#include <cstdio>
#include <sstream>

const char *const OP_NAMES[OP__COUNT] = {
    "init_object", "init_array", "reset", "verify", "get_depth", "next", "next_ensure", "get_type",
    "field", "field_with_length", "field_ensure", "field_ensure_with_length", "field_null",
    "go_into_object", "leave_object", "go_into_array", "leave_array",
    "get_name", "get_string", "get_raw", "get_integer", "get_boolean", "get_double", "get_bytes",
    "string_equals", "print", "to_string", "to_string_null", "to_writer",
    "REWRITE", "SCRIBBLE", "ABANDON",
    "enter", "step", "leave", "observe", "lookup", "lookup_ensure", "raw", "towriter", "streq", "restart",
    "w_init", "w_reset", "w_object_begin", "w_object_end", "w_array_begin", "w_array_end", "w_boolean", "w_integer", "w_double",
    "w_string", "w_string_with_len", "w_name", "w_bytes", "w_raw", "w_verify", "w_counter", "w_string_null", "w_raw_null", "w_parser_to_writer",
    "choice",
};

std::string fmt(const char *f, ...) {
    char buf[2048];
    va_list ap; va_start(ap, f);
    int n = vsnprintf(buf, sizeof buf, f, ap);
    va_end(ap);
    if (n < 0) return "";
    if ((size_t)n < sizeof buf) return std::string(buf, (size_t)n);
    std::string s((size_t)n + 1, '\0');
    va_start(ap, f); vsnprintf(&s[0], s.size(), f, ap); va_end(ap);
    s.resize((size_t)n);
    return s;
}

std::string op_to_text(const Op &o) {
    std::string s = (o.code >= 0 && o.code < OP__COUNT) ? OP_NAMES[o.code] : "?";
    bool hasb = !o.b.empty(), hasc = o.c != 0, hasa = o.a != 0;
    if (hasa || hasb || hasc) s += ":" + std::to_string((long long)o.a);
    if (hasb || hasc) s += ":" + (hasb ? to_hex(o.b) : std::string("-"));
    if (hasc) s += ":" + std::to_string((long long)o.c);
    return s;
}

bool op_from_text(const std::string &s, Op &o) {
    std::vector<std::string> parts;
    size_t st = 0;
    while (true) { size_t p = s.find(':', st); if (p == std::string::npos) { parts.push_back(s.substr(st)); break; } parts.push_back(s.substr(st, p - st)); st = p + 1; }
    o = Op();
    o.code = -1;
    for (int i = 0; i < OP__COUNT; i++) if (parts[0] == OP_NAMES[i]) { o.code = i; break; }
    if (o.code < 0) return false;
    try {
        if (parts.size() > 1) o.a = std::stoll(parts[1]);
        if (parts.size() > 2) { if (!from_hex(parts[2], o.b)) return false; }
        if (parts.size() > 3) o.c = std::stoll(parts[3]);
    } catch (...) { return false; }
    return true;
}

static std::string ops_text(const std::vector<Op> &ops) {
    if (ops.empty()) return "-";
    std::string s;
    for (size_t i = 0; i < ops.size(); i++) { if (i) s += " "; s += op_to_text(ops[i]); }
    return s;
}

std::string plan_to_text(const Plan &p) {
    std::string t = "binsim-plan 1\n";
    t += "engine " + p.engine + "\n";
    t += "property " + p.prop + "\n";
    t += "seed " + std::to_string((unsigned long long)p.seed) + "\n";
    t += "index " + std::to_string((unsigned long long)p.index) + "\n";
    t += "root " + std::string(p.root ? "array" : "object") + "\n";
    t += "max_depth " + std::to_string(p.max_depth) + "\n";
    t += "prefill " + std::to_string((unsigned long long)p.prefill) + "\n";
    for (auto &kv : p.par) t += "param " + kv.first + " " + std::to_string((long long)kv.second) + "\n";
    std::string f;
    for (auto &x : p.faults) { if (!f.empty()) f += " "; f += x; }
    t += "faults " + (f.empty() ? std::string("-") : f) + "\n";
    t += "doc " + (p.doc.empty() ? std::string("-") : to_hex(p.doc)) + "\n";
    if (!p.doc2.empty()) t += "doc2 " + to_hex(p.doc2) + "\n";
    t += "ops " + ops_text(p.ops) + "\n";
    if (!p.ops2.empty()) t += "ops2 " + ops_text(p.ops2) + "\n";
    for (auto &sp : p.sub) { std::string st = plan_to_text(sp); t += "sub " + to_hex((const uint8_t *)st.data(), st.size()) + "\n"; }
    if (!p.note.empty()) {
        std::istringstream is(p.note); std::string l;
        while (std::getline(is, l)) t += "# " + l + "\n";
    }
    if (!p.expect_clause.empty()) t += "expect " + p.expect_clause + " " + fmt("%016llx", (unsigned long long)p.expect_hash) + "\n";
    return t;
}

static bool parse_ops(const std::string &v, std::vector<Op> &ops) {
    ops.clear();
    if (v == "-" || v.empty()) return true;
    std::istringstream is(v); std::string w;
    while (is >> w) { Op o; if (!op_from_text(w, o)) return false; ops.push_back(o); }
    return true;
}

bool plan_from_text(const std::string &t, Plan &p, std::string &err) {
    p = Plan();
    std::istringstream is(t); std::string line;
    bool first = true;
    while (std::getline(is, line)) {
        if (line.empty()) continue;
        if (line[0] == '#') { p.note += line.substr(line.size() > 1 && line[1] == ' ' ? 2 : 1) + "\n"; continue; }
        size_t sp = line.find(' ');
        std::string k = line.substr(0, sp), v = sp == std::string::npos ? "" : line.substr(sp + 1);
        if (first) { if (k != "binsim-plan") { err = "not a binsim plan"; return false; } first = false; continue; }
        try {
            if (k == "engine") p.engine = v;
            else if (k == "property") p.prop = v;
            else if (k == "seed") p.seed = std::stoull(v);
            else if (k == "index") p.index = std::stoull(v);
            else if (k == "root") p.root = (v == "array") ? 1 : 0;
            else if (k == "max_depth") p.max_depth = std::stoi(v);
            else if (k == "prefill") p.prefill = std::stoull(v);
            else if (k == "param") { size_t q = v.find(' '); if (q == std::string::npos) { err = "bad param"; return false; } p.par[v.substr(0, q)] = std::stoll(v.substr(q + 1)); }
            else if (k == "faults") { if (v != "-") { std::istringstream fs(v); std::string w; while (fs >> w) p.faults.push_back(w); } }
            else if (k == "doc") { if (!from_hex(v, p.doc)) { err = "bad doc hex"; return false; } }
            else if (k == "doc2") { if (!from_hex(v, p.doc2)) { err = "bad doc2 hex"; return false; } }
            else if (k == "ops") { if (!parse_ops(v, p.ops)) { err = "bad ops"; return false; } }
            else if (k == "ops2") { if (!parse_ops(v, p.ops2)) { err = "bad ops2"; return false; } }
            else if (k == "sub") { Bytes b; if (!from_hex(v, b)) { err = "bad sub hex"; return false; } Plan sp; std::string e2; if (!plan_from_text(std::string(b.begin(), b.end()), sp, e2)) { err = "bad sub plan: " + e2; return false; } p.sub.push_back(sp); }
            else if (k == "expect") { size_t q = v.find(' '); p.expect_clause = v.substr(0, q); if (q != std::string::npos) p.expect_hash = std::stoull(v.substr(q + 1), nullptr, 16); }
            else { err = "unknown key " + k; return false; }
        } catch (...) { err = "bad value for " + k; return false; }
    }
    if (first) { err = "empty plan"; return false; }
    if (p.max_depth < 1 || p.max_depth > 255) { err = "max_depth out of range"; return false; }
    return true;
}

uint64_t plan_digest(const Plan &p) {
    Plan q = p;
    for (auto &sp : q.sub) { sp.seed = 0; sp.index = 0; sp.note.clear(); sp.faults.clear(); }
    q.seed = 0; q.index = 0; q.note.clear(); q.expect_clause.clear(); q.expect_hash = 0; q.faults.clear(); q.prop.clear();
    std::string t = plan_to_text(q);
    return fnv_str(t);
}
