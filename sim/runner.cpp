// runner.cpp - workers, crash capture, confirmation, minimisation, evidence
#include "runner.hpp"
#include "engines.hpp"
#include <cstdio>
#include <cstdlib>
#include <csignal>
#include <ctime>
#include <fstream>
#include <sstream>
#include <unistd.h>
#include <fcntl.h>
#include <sys/mman.h>
#include <sys/stat.h>
#include <sys/time.h>
#include <sys/wait.h>

// ---------------------------------------------------------------- watchdog (CPU time; only fires on a run that would never end)
static void on_vtalrm(int) { _exit(78); }
// coverage builds (bin/coverage: library compiled with --coverage): workers leave through _exit, which skips the atexit flush
#ifdef SIM_COV
extern "C" void __gcov_dump(void);
static inline void cov_flush() { __gcov_dump(); }
#else
static inline void cov_flush() {}
#endif
void install_watchdog(int seconds) { signal(SIGVTALRM, on_vtalrm); arm_watchdog(seconds); }
void arm_watchdog(int seconds) {
    struct itimerval it; memset(&it, 0, sizeof it);
    it.it_value.tv_sec = seconds;
    setitimer(ITIMER_VIRTUAL, &it, nullptr);
}
static bool g_keep_owned = false;        // minimisation must keep the history one that the plan's property is about (Engine::owned)
static int g_watchdog_override = 0;      // > 0 while a run that hangs is being minimised (each still-hanging candidate costs this much CPU time)
static uint64_t g_minimise_budget = 260;
static int watchdog_seconds() { if (g_watchdog_override > 0) return g_watchdog_override; const char *e = getenv("VERIF_WATCHDOG_S"); int v = e ? atoi(e) : 10; return v > 0 ? v : 10; }

FILE *g_out = nullptr;

static double now_s() { struct timespec ts; clock_gettime(CLOCK_MONOTONIC, &ts); return (double)ts.tv_sec + (double)ts.tv_nsec * 1e-9; }

std::string json_escape(const std::string &s) {
    std::string o; o.reserve(s.size() + 8);
    for (unsigned char c : s) {
        switch (c) {
            case '"': o += "\\\""; break; case '\\': o += "\\\\"; break; case '\n': o += "\\n"; break; case '\t': o += "\\t"; break; case '\r': o += "\\r"; break;
            default: if (c < 0x20 || c >= 0x7f) o += fmt("\\u%04x", c); else o.push_back((char)c);
        }
    }
    return o;
}

// ---------------------------------------------------------------- aggregate
static bool is_max_key(const std::string &k) { return k.find(".max_") != std::string::npos || k.find("max_") == 0; }

void Agg::add(const Plan &p, const Result &r) {
    evaluations++; steps += r.steps; calls += r.calls;
    per_engine[p.engine]++;
    if (r.invalid_plan) invalid++;
    for (auto &kv : r.cnt) { if (is_max_key(kv.first)) cnt[kv.first] = std::max(cnt[kv.first], kv.second); else cnt[kv.first] += kv.second; }
    for (auto &f : p.faults) { size_t c = f.find(':'); cnt["fault." + f.substr(0, c)]++; }
    if (r.nontrivial) nontrivial.insert(plan_digest(p));
    for (auto t : r.transitions) transitions.insert(t);
    size_t sz = p.doc.size() + p.doc2.size() + 4 * (p.ops.size() + p.ops2.size());
    if (r.nontrivial || sample_small.empty()) {
        if (sz < small_sz && r.nontrivial) { small_sz = sz; sample_small = plan_to_text(p); }
        if (sz > large_sz && sz < 6000) { large_sz = sz; sample_large = plan_to_text(p); }
        if (sample_fault.empty() && !p.faults.empty() && r.nontrivial && sz < 3000) sample_fault = plan_to_text(p);
    }
}

void Agg::merge(const Agg &o) {
    evaluations += o.evaluations; steps += o.steps; calls += o.calls; invalid += o.invalid;
    for (auto &kv : o.cnt) { if (is_max_key(kv.first)) cnt[kv.first] = std::max(cnt[kv.first], kv.second); else cnt[kv.first] += kv.second; }
    for (auto &kv : o.per_engine) per_engine[kv.first] += kv.second;
    nontrivial.insert(o.nontrivial.begin(), o.nontrivial.end());
    transitions.insert(o.transitions.begin(), o.transitions.end());
    if (!o.sample_small.empty() && o.small_sz < small_sz) { small_sz = o.small_sz; sample_small = o.sample_small; }
    if (!o.sample_large.empty() && o.large_sz > large_sz) { large_sz = o.large_sz; sample_large = o.sample_large; }
    if (sample_fault.empty()) sample_fault = o.sample_fault;
    for (auto &f : o.fails) fails.push_back(f);
}

static std::string hexs(const std::string &s) { return s.empty() ? "-" : to_hex((const uint8_t *)s.data(), s.size()); }
static std::string unhexs(const std::string &h) { Bytes b; if (h == "-" || !from_hex(h, b)) return ""; return std::string(b.begin(), b.end()); }

bool Agg::save(const std::string &path) const {
    std::string tmp = path + ".tmp";
    FILE *f = fopen(tmp.c_str(), "w");
    if (!f) return false;
    fprintf(f, "E %llu %llu %llu %llu\n", (unsigned long long)evaluations, (unsigned long long)steps, (unsigned long long)calls, (unsigned long long)invalid);
    for (auto &kv : cnt) fprintf(f, "c %s %llu\n", kv.first.c_str(), (unsigned long long)kv.second);
    for (auto &kv : per_engine) fprintf(f, "e %s %llu\n", kv.first.c_str(), (unsigned long long)kv.second);
    for (auto d : nontrivial) fprintf(f, "n %llx\n", (unsigned long long)d);
    for (auto t : transitions) fprintf(f, "t %x\n", t);
    fprintf(f, "s small %zu %s\n", small_sz, hexs(sample_small).c_str());
    fprintf(f, "s large %zu %s\n", large_sz, hexs(sample_large).c_str());
    fprintf(f, "s fault 0 %s\n", hexs(sample_fault).c_str());
    fclose(f);
    return rename(tmp.c_str(), path.c_str()) == 0;
}

bool Agg::load(const std::string &path) {
    std::ifstream in(path);
    if (!in) return false;
    std::string line;
    while (std::getline(in, line)) {
        std::istringstream is(line); std::string k; is >> k;
        if (k == "E") { is >> evaluations >> steps >> calls >> invalid; }
        else if (k == "c") { std::string n; uint64_t v; is >> n >> v; cnt[n] = v; }
        else if (k == "e") { std::string n; uint64_t v; is >> n >> v; per_engine[n] = v; }
        else if (k == "n") { std::string h; is >> h; nontrivial.insert(std::stoull(h, nullptr, 16)); }
        else if (k == "t") { std::string h; is >> h; transitions.insert((uint32_t)std::stoul(h, nullptr, 16)); }
        else if (k == "s") { std::string w, h; size_t z; is >> w >> z >> h; std::string t = unhexs(h); if (w == "small") { small_sz = z; sample_small = t; } else if (w == "large") { large_sz = z; sample_large = t; } else sample_fault = t; }
    }
    return true;
}

// ---------------------------------------------------------------- child execution
static std::string g_scratch = "/verif/build/scratch";

static std::string slurp(const std::string &p) { std::ifstream in(p); std::stringstream ss; ss << in.rdbuf(); return ss.str(); }

ChildRes run_in_child(const Plan &p, const std::string &prop, bool verbose) {
    ChildRes cr;
    const Engine *e = find_engine(p.engine);
    if (!e) { cr.invalid = true; cr.detail = "unknown engine " + p.engine; return cr; }
    int pfd[2];
    if (pipe(pfd) != 0) { cr.invalid = true; return cr; }
    std::string errfile = g_scratch + fmt("/child.%d.stderr", (int)getpid());
    fflush(nullptr);
    pid_t pid = fork();
    if (pid == 0) {
        close(pfd[0]);
        int efd = open(errfile.c_str(), O_WRONLY | O_CREAT | O_TRUNC, 0644);
        if (efd >= 0) { dup2(efd, 2); close(efd); }
        install_watchdog(watchdog_seconds());
        ExecCtx ctx; ctx.verbose = verbose; ctx.prop = prop;
        Result r = e->execute(p, ctx);
        std::string out = fmt("R %d %016llx %s\n", r.invalid_plan ? 1 : 0, (unsigned long long)r.trace_hash, r.clause.empty() ? "-" : r.clause.c_str());
        out += "D " + hexs(r.detail) + "\n";
        for (auto &l : r.log) out += "L " + hexs(l) + "\n";
        size_t off = 0;
        while (off < out.size()) { ssize_t w = write(pfd[1], out.data() + off, out.size() - off); if (w <= 0) break; off += (size_t)w; }
        close(pfd[1]);
        cov_flush(); _exit(0);
    }
    close(pfd[1]);
    std::string data; char buf[65536]; ssize_t n;
    while ((n = read(pfd[0], buf, sizeof buf)) > 0) data.append(buf, (size_t)n);
    close(pfd[0]);
    int st = 0; waitpid(pid, &st, 0);
    cr.stderr_text = slurp(errfile);
    unlink(errfile.c_str());
    if (WIFEXITED(st) && WEXITSTATUS(st) == 0) {
        std::istringstream is(data); std::string line;
        while (std::getline(is, line)) {
            if (line.size() < 2) continue;
            if (line[0] == 'R') { std::istringstream ls(line.substr(2)); int inv; std::string h, c; ls >> inv >> h >> c; cr.invalid = inv != 0; cr.hash = std::stoull(h, nullptr, 16); cr.clause = c == "-" ? "" : c; }
            else if (line[0] == 'D') cr.detail = unhexs(line.substr(2));
            else if (line[0] == 'L') cr.log.push_back(unhexs(line.substr(2)));
        }
        return cr;
    }
    cr.crashed = true;
    if (WIFEXITED(st) && WEXITSTATUS(st) == 78) { cr.hung = true; cr.crash_kind = "watchdog"; }
    else if (WIFSIGNALED(st)) cr.crash_kind = fmt("signal%d", WTERMSIG(st));
    else {
        const std::string &t = cr.stderr_text;
        if (t.find("WRITE of size") != std::string::npos || t.find("caused by a WRITE memory access") != std::string::npos) cr.crash_kind = "asan_write";
        else if (t.find("READ of size") != std::string::npos) cr.crash_kind = "asan_read";
        else if (t.find("runtime error:") != std::string::npos) cr.crash_kind = "ubsan";
        else if (t.find("AddressSanitizer") != std::string::npos) cr.crash_kind = "asan_other";
        else cr.crash_kind = fmt("exit%d", WIFEXITED(st) ? WEXITSTATUS(st) : -1);
    }
    cr.clause = crash_clause(p, cr);
    size_t pos = cr.stderr_text.find("ERROR:");
    if (pos == std::string::npos) pos = cr.stderr_text.find("runtime error:");
    cr.detail = pos == std::string::npos ? cr.crash_kind : cr.stderr_text.substr(pos, std::min<size_t>(300, cr.stderr_text.find('\n', pos) - pos));
    // stable digest of a crash: kind + (for sanitizer reports) the faulting source line inside the library
    std::string key = cr.crash_kind;
    size_t fpos = cr.stderr_text.find("/src/binson");
    if (fpos != std::string::npos) { size_t e2 = cr.stderr_text.find_first_of(" \n)", fpos); key += cr.stderr_text.substr(fpos, e2 - fpos); size_t c2 = key.rfind(':'); if (c2 != std::string::npos && key.find(':') != c2) key.resize(c2); }
    cr.hash = fnv_str(key);
    return cr;
}

std::string crash_clause(const Plan &p, const ChildRes &c) {
    if (c.hung) return "C16.hang.watchdog";
    std::string owner;
    if (p.engine == "nav") owner = p.prop;
    else if (p.engine == "capacity") owner = "C04";
    else if (p.engine == "tostring") owner = c.crash_kind == "asan_write" ? "C13" : "C01";
    else if (p.engine == "cppwrap") owner = "C15";
    else if (p.engine == "reuse") owner = p.P("only_fresh") ? "C01" : "C12?";      // decided by the differential re-run
    else if (p.engine == "interleave") owner = p.P("solo") ? "C01" : "C17?";
    else owner = "C01";
    return owner + ".crash." + c.crash_kind;
}

// ---------------------------------------------------------------- minimisation (ddmin over ops, then engine-specific structure)
Plan minimise(const Plan &start, const std::string &prop, const std::string &clause, uint64_t *runs_used) {
    Plan best = start;
    uint64_t runs = 0; const uint64_t BUDGET = g_minimise_budget;
    const Engine *eng0 = find_engine(start.engine);
    auto still = [&](const Plan &q) -> bool {
        if (runs >= BUDGET) return false;
        if (g_keep_owned && eng0 && eng0->owned && !eng0->owned(q, clause)) return false;
        runs++;
        ChildRes c = run_in_child(q, prop, false);
        return !c.invalid && c.clause == clause;
    };
    auto ddmin_ops = [&](bool second) {
        std::vector<Op> Plan::*which = second ? &Plan::ops2 : &Plan::ops;
        size_t chunk = std::max<size_t>(1, (best.*which).size() / 2);
        while (chunk >= 1 && !(best.*which).empty()) {
            bool progress = false;
            for (size_t st = 0; st < (best.*which).size();) {
                Plan q = best;
                size_t en = std::min((q.*which).size(), st + chunk);
                (q.*which).erase((q.*which).begin() + (long)st, (q.*which).begin() + (long)en);
                if (still(q)) { best = q; progress = true; } else st += chunk;
                if (runs >= BUDGET) return;
            }
            if (!progress) { if (chunk == 1) break; chunk = chunk / 2; }
        }
    };
    const Engine *e = find_engine(start.engine);
    for (int round = 0; round < 4 && runs < BUDGET; round++) {
        Plan before = best;
        ddmin_ops(false);
        if (!best.ops2.empty()) ddmin_ops(true);
        // engine-specific candidates (document structure, parameters): greedy first-improvement
        if (e && e->shrink_candidates) {
            bool again = true; int guard = 0;
            while (again && runs < BUDGET && guard++ < 200) {
                again = false;
                std::vector<Plan> cands; e->shrink_candidates(best, cands);
                for (auto &q : cands) { if (still(q)) { best = q; again = true; break; } if (runs >= BUDGET) break; }
            }
        }
        // simplify operation arguments
        for (int second = 0; second < 2; second++) {
            std::vector<Op> Plan::*which = second ? &Plan::ops2 : &Plan::ops;
            for (size_t i = 0; i < (best.*which).size() && runs < BUDGET; i++) {
                Op &o = (best.*which)[i];
                if (o.a != 0 && o.a != -1) { Plan q = best; (q.*which)[i].a = 0; if (still(q)) { best = q; continue; } }
                if (o.c != 0) { Plan q = best; (q.*which)[i].c = 0; if (still(q)) { best = q; continue; } }
                if (o.b.size() > 1) { Plan q = best; (q.*which)[i].b.resize(1); if (still(q)) best = q; }
            }
        }
        if (plan_digest(before) == plan_digest(best)) break;
    }
    if (runs_used) *runs_used = runs;
    return best;
}

// ---------------------------------------------------------------- workers
struct Slot { volatile uint64_t batch, index, done; };
struct Shared { volatile int stop; volatile int fails; volatile int fails_other; Slot slots[64]; };

static void worker_main(const std::vector<Batch> &batches, const std::string &prop, uint64_t seed, int tier, int w, int J, uint64_t b0, uint64_t i0,
                        Shared *sh, const std::string &dir, int gen) {
    install_watchdog(watchdog_seconds());
    { int nfd = open((dir + fmt("/w%d.stderr", w)).c_str(), O_WRONLY | O_CREAT | O_APPEND, 0644); if (nfd >= 0) { dup2(nfd, 2); close(nfd); } }   // sanitizer reports are re-captured by the confirming child
    Agg agg;
    std::string failpath = dir + fmt("/w%d.fails", w);
    FILE *ff = fopen(failpath.c_str(), "a");
    ExecCtx ctx; ctx.prop = prop;
    uint64_t since = 0;
    std::string aggpath = dir + fmt("/w%d.g%d.agg", w, gen);
    for (uint64_t b = b0; b < batches.size(); b++) {
        const Engine *e = find_engine(batches[b].engine);
        if (!e) continue;
        uint64_t start = (b == b0) ? i0 : (uint64_t)w;
        for (uint64_t i = start; i < batches[b].runs; i += (uint64_t)J) {
            if (sh->stop) goto out;
            sh->slots[w].batch = b; sh->slots[w].index = i;
            arm_watchdog(watchdog_seconds());
            clock_t c0 = clock();
            Plan p = e->generate(seed, prop, i, tier);
            Result r = e->execute(p, ctx);
            uint64_t ms = (uint64_t)((clock() - c0) * 1000 / CLOCKS_PER_SEC);
            r.cnt["perf.max_run_cpu_ms"] = ms;      // slowest single run (CPU time): must stay far below the watchdog
            agg.add(p, r);
            sh->slots[w].done++;
            if (!r.ok() && ff) {
                fprintf(ff, "%llu %llu %s %s\n", (unsigned long long)b, (unsigned long long)i, r.clause.c_str(), hexs(r.detail).c_str()); fflush(ff);
                // enough material: the check has failed, do not grind through the rest. For C07 / C11 a failure whose clause was not
                // raised by one of the property's own operations may be attributed away (navigation defect), so keep looking for
                // property-specific ones a good while longer
                bool specific = true;
                if (prop == "C07") specific = r.clause.find(".lookup.") != std::string::npos || r.clause.find(".ensure.") != std::string::npos;
                else if (prop == "C11") specific = r.clause.find(".raw.") != std::string::npos || r.clause.find(".towriter.") != std::string::npos;
                if (specific) { if (__sync_add_and_fetch(&sh->fails, 1) >= 48) sh->stop = 1; }
                else if (__sync_add_and_fetch(&sh->fails_other, 1) >= 4000) sh->stop = 1;
            }
            if (++since >= 4000) { agg.save(aggpath); since = 0; }
        }
    }
out:
    agg.save(aggpath);
    if (ff) fclose(ff);
    cov_flush(); _exit(0);
}

static std::string shape_of(const Plan &p);

struct Finding { Plan plan; std::string clause, detail, sig, path, stderr_text; bool info = false; std::string info_reason; };

static void write_file(const std::string &path, const std::string &text) { FILE *f = fopen(path.c_str(), "w"); if (f) { fwrite(text.data(), 1, text.size(), f); fclose(f); } }

static void mkdirs(const std::string &d) { std::string cur; for (size_t i = 0; i <= d.size(); i++) { if (i == d.size() || d[i] == '/') { if (!cur.empty()) mkdir(cur.c_str(), 0755); } if (i < d.size()) cur.push_back(d[i]); } }

static bool clause_owned(const std::string &clause, const std::string &prop) {
    return clause.size() > prop.size() && clause.compare(0, prop.size(), prop) == 0 && clause[prop.size()] == '.';
}

// differential re-run for engines whose crash ownership depends on a control run (reuse: fresh-only; interleave: solo)
static std::string resolve_crash_owner(const Plan &p, const std::string &prop, const ChildRes &c) {
    std::string cl = c.clause;
    size_t q = cl.find('?');
    if (q == std::string::npos) return cl;
    Plan ctl = p; ctl.par[p.engine == "reuse" ? "only_fresh" : "solo"] = 1;
    ChildRes cc = run_in_child(ctl, prop, false);
    if (cc.crashed) return "C01" + cl.substr(q + 1);      // the control run crashes as well: not a carry-over / interference defect
    cl.erase(q, 1);
    return cl;
}

int run_check(const CheckSpec &spec, const RunOptions &opt) {
    double t0 = now_s();
    const std::string &prop = spec.prop;
    std::vector<Batch> batches = opt.tier ? spec.thorough : spec.quick;
    for (auto &b : batches) { if (opt.runs_override) b.runs = opt.runs_override; else b.runs = (uint64_t)((double)b.runs * opt.scale); if (b.runs < 1) b.runs = 1; }
    int J = std::max(1, std::min(opt.jobs, 48));
    g_scratch = opt.scratch_dir.empty() ? "/verif/build/scratch" : opt.scratch_dir;
    std::string dir = g_scratch + fmt("/run.%d", (int)getpid());
    mkdirs(dir);
    fprintf(g_out, "binsim: property=%s tier=%s VERIF_SEED=%llu jobs=%d", prop.c_str(), opt.tier ? "thorough" : "quick", (unsigned long long)opt.seed, J);
    for (auto &b : batches) fprintf(g_out, " %s x%llu", b.engine.c_str(), (unsigned long long)b.runs);
    fprintf(g_out, "\n"); fflush(g_out);

    Shared *sh = (Shared *)mmap(nullptr, sizeof(Shared), PROT_READ | PROT_WRITE, MAP_SHARED | MAP_ANONYMOUS, -1, 0);
    memset((void *)sh, 0, sizeof(Shared));
    std::map<pid_t, int> who; std::vector<int> gen((size_t)J, 0);
    std::vector<Agg::Fail> crashes;
    auto spawn = [&](int w, uint64_t b0, uint64_t i0) {
        fflush(nullptr);
        pid_t pid = fork();
        if (pid == 0) worker_main(batches, prop, opt.seed, opt.tier, w, J, b0, i0, sh, dir, gen[(size_t)w]);
        who[pid] = w;
    };
    for (int w = 0; w < J; w++) spawn(w, 0, (uint64_t)w);
    int hangs = 0;
    while (!who.empty()) {
        int st = 0; pid_t pid = wait(&st);
        if (pid < 0) break;
        auto it = who.find(pid); if (it == who.end()) continue;
        int w = it->second; who.erase(it);
        if (WIFEXITED(st) && WEXITSTATUS(st) == 0) continue;
        uint64_t b = sh->slots[w].batch, i = sh->slots[w].index;
        bool hung = WIFEXITED(st) && WEXITSTATUS(st) == 78;
        crashes.push_back(Agg::Fail{b, i, hung ? "hang" : "crash", ""});
        if (hung) hangs++;
        if (crashes.size() >= 24 || hangs >= 2) sh->stop = 1;
        gen[(size_t)w]++;
        // resume after the run that killed the worker
        uint64_t nb = b, ni = i + (uint64_t)J;
        if (!sh->stop) spawn(w, nb, ni);
    }
    // ---- merge
    Agg total;
    for (int w = 0; w < J; w++) {
        for (int g = 0; g <= gen[(size_t)w]; g++) { Agg a; if (a.load(dir + fmt("/w%d.g%d.agg", w, g))) total.merge(a); }
        std::ifstream ff(dir + fmt("/w%d.fails", w)); std::string line;
        while (std::getline(ff, line)) { std::istringstream is(line); Agg::Fail f; std::string d; is >> f.batch >> f.index >> f.clause >> d; f.detail = unhexs(d); total.fails.push_back(f); }
    }
    for (auto &c : crashes) total.fails.push_back(c);
    auto specific = [&](const std::string &cl) {      // clauses raised by the operations the property is about come first
        if (prop == "C07") return cl.find(".lookup.") != std::string::npos || cl.find(".ensure.") != std::string::npos;
        if (prop == "C11") return cl.find(".raw.") != std::string::npos || cl.find(".towriter.") != std::string::npos;
        return false;
    };
    std::sort(total.fails.begin(), total.fails.end(), [&](const Agg::Fail &a, const Agg::Fail &b) {
        bool sa = specific(a.clause), sb = specific(b.clause);
        if (sa != sb) return sa;
        return a.batch != b.batch ? a.batch < b.batch : a.index < b.index; });
    double t_run = now_s() - t0;

    // ---- confirm, minimise, re-confirm (first failure of each distinct clause, in index order)
    std::vector<Finding> findings;
    std::set<std::string> seen_clause, info_seen;
    int infra_fail = 0; uint64_t shrink_runs = 0;
    int handled = 0, looked = 0;
    std::map<std::string, int> seen_reported;
    for (auto &f : total.fails) {
        if (handled >= 4 || looked >= 24) break;
        looked++;
        // the worker already told us the clause (or that it died): look at no more than two runs per reported clause
        if (++seen_reported[f.clause + "@" + batches[f.batch].engine] > (f.clause == "crash" || f.clause == "hang" ? 2 : 10)) continue;
        const Engine *e = find_engine(batches[f.batch].engine);
        Plan p = e->generate(opt.seed, prop, f.index, opt.tier);         // pure function of the seed
        ChildRes c1 = run_in_child(p, prop, false);
        std::string clause = c1.clause;
        if (c1.crashed) clause = resolve_crash_owner(p, prop, c1);
        if (clause.empty()) {
            if (f.clause == "crash" || f.clause == "hang") { fprintf(g_out, "binsim: GATE FAILED: run %s#%llu killed its worker (%s) but completes in a fresh process\n", batches[f.batch].engine.c_str(), (unsigned long long)f.index, f.clause.c_str()); }
            else fprintf(g_out, "binsim: GATE FAILED: run %s#%llu failed %s in the worker but passes in a fresh process (harness nondeterminism)\n", batches[f.batch].engine.c_str(), (unsigned long long)f.index, f.clause.c_str());
            infra_fail++; handled++; continue;
        }
        if (seen_clause.count(clause)) continue;
        if (!clause_owned(clause, prop)) {
            seen_clause.insert(clause); handled++;
            Finding fi; fi.plan = p; fi.clause = clause; fi.detail = c1.detail; fi.info = true; fi.info_reason = "belongs to " + clause.substr(0, clause.find('.'));
            findings.push_back(fi); continue;
        }
        // same-plan-twice gate
        ChildRes c2 = run_in_child(p, prop, false);
        std::string clause2 = c2.crashed ? resolve_crash_owner(p, prop, c2) : c2.clause;
        if (clause2 != clause || c2.hash != c1.hash) { fprintf(g_out, "binsim: GATE FAILED: %s#%llu does not reproduce identically (%s/%016llx vs %s/%016llx)\n", batches[f.batch].engine.c_str(), (unsigned long long)f.index, clause.c_str(), (unsigned long long)c1.hash, clause2.c_str(), (unsigned long long)c2.hash); infra_fail++; continue; }
        uint64_t used = 0;
        Plan m;
        if (c1.hung) {
            // a run that never ends: minimise with a short watchdog (ordinary runs take milliseconds) and a small budget;
            // the result is confirmed below with the full watchdog, and dropped in favour of the original plan if it does not hang there
            g_watchdog_override = 2; g_minimise_budget = 60;
            m = minimise(p, prop, c1.clause, &used);
            g_watchdog_override = 0; g_minimise_budget = 260;
        } else {
            Plan start = p;
            if (e->owned && !c1.crashed && p.ops2.empty() && p.ops.size() > 1) {
                // A history of lookups / raw extractions interleaved with navigation that diverges is a violation of the
                // property those operations belong to if one of them was executed before the divergence - even when the
                // divergence is raised by a navigation step and could also be reached without them. So: cut the history
                // after the failing step (a run stops at its first failure, hence the shortest failing prefix is found by
                // bisection), and if that prefix contains one of the property's operations, minimise under the constraint
                // that it keeps one. Only a history that fails before any of them is left to the navigation check (C06).
                size_t lo = 1, hi = p.ops.size();
                while (lo < hi) {
                    size_t mid = lo + (hi - lo) / 2;
                    Plan q = p; q.ops.resize(mid);
                    ChildRes cq = run_in_child(q, prop, false); used++;
                    if (!cq.invalid && !cq.crashed && cq.clause == clause) hi = mid; else lo = mid + 1;
                }
                start.ops.resize(hi);
                g_keep_owned = e->owned(start, clause);
                if (!g_keep_owned) {
                    // pure navigation up to the failing step: C06's business. Say so once, and keep looking at further runs that
                    // report the same clause - one of them may reach it through one of this property's own operations
                    if (!info_seen.count(clause)) {
                        info_seen.insert(clause);
                        Finding fi; fi.plan = start; fi.clause = clause; fi.detail = c1.detail; fi.info = true;
                        fi.info_reason = "the history fails before any operation this property is about was executed (navigation defect: see C06)";
                        findings.push_back(fi);
                    }
                    continue;
                }
            }
            m = minimise(start, prop, c1.crashed ? c1.clause : clause, &used);
            g_keep_owned = false;
        }
        shrink_runs += used;
        ChildRes c3 = run_in_child(m, prop, true);
        std::string clause3 = c3.crashed ? resolve_crash_owner(m, prop, c3) : c3.clause;
        if (clause3 != clause) {
            // memory corruption can make a shrunk plan behave differently from process to process; the original plan
            // reproduced twice, so report that one un-minimised rather than a plan that does not replay
            fprintf(g_out, "binsim: note: minimised plan of %s#%llu gives %s instead of %s in a fresh process; reporting the un-minimised plan\n", batches[f.batch].engine.c_str(), (unsigned long long)f.index, clause3.empty() ? "no failure" : clause3.c_str(), clause.c_str());
            m = p;
            c3 = run_in_child(m, prop, true);
            clause3 = c3.crashed ? resolve_crash_owner(m, prop, c3) : c3.clause;
            if (clause3 != clause) { fprintf(g_out, "binsim: GATE FAILED: %s#%llu does not reproduce a third time\n", batches[f.batch].engine.c_str(), (unsigned long long)f.index); infra_fail++; continue; }
        }
        Finding fi; fi.plan = m; fi.clause = clause; fi.detail = c3.detail; fi.stderr_text = c3.stderr_text;
        fi.plan.expect_clause = clause; fi.plan.expect_hash = c3.hash;
        if (e->owned && !e->owned(m, clause)) { fi.info = true; fi.info_reason = "the minimised history no longer contains an operation this property is about (navigation defect: see C06)"; }
        fi.sig = fmt("%s|%s|%s|", clause.c_str(), m.engine.c_str(), shape_of(m).c_str());
        for (size_t i = 0; i < m.ops.size(); i++) { if (i) fi.sig += ","; fi.sig += OP_NAMES[m.ops[i].code]; }
        if (!m.ops2.empty()) { fi.sig += ";"; for (size_t i = 0; i < m.ops2.size(); i++) { if (i) fi.sig += ","; fi.sig += OP_NAMES[m.ops2[i].code]; } }
        if (!fi.info) {
            mkdirs(opt.replay_dir);
            fi.path = opt.replay_dir + fmt("/%s-%llu-%s-%llu.plan", prop.c_str(), (unsigned long long)opt.seed, m.engine.c_str(), (unsigned long long)f.index);
            std::string text = plan_to_text(fi.plan);
            text += "# violation: " + clause + "\n# " + fi.detail + "\n# signature: " + fi.sig + "\n";
            for (auto &l : c3.log) text += "#   " + l + "\n";
            if (!c3.stderr_text.empty()) { std::istringstream es(c3.stderr_text); std::string l; int k = 0; while (std::getline(es, l) && k++ < 16) text += "# stderr: " + l + "\n"; }
            write_file(fi.path, text);
        }
        seen_clause.insert(clause); handled++;
        findings.push_back(fi);
    }
    // ---- evidence
    int violations = 0;
    for (auto &fi : findings) if (!fi.info) violations++;
    double wall = now_s() - t0;
    {
        std::string j = "{\n";
        j += fmt("  \"property_id\": \"%s\",\n  \"tier\": \"%s\",\n  \"seed\": %llu,\n  \"level\": \"%s\",\n", prop.c_str(), opt.tier ? "thorough" : "quick", (unsigned long long)opt.seed, spec.level.c_str());
        j += "  \"coverage\": {\n";
        j += fmt("    \"evaluations\": %llu,\n    \"distinct_nontrivial\": %zu,\n", (unsigned long long)total.evaluations, total.nontrivial.size());
        j += "    \"rule\": \"" + json_escape(spec.rule) + "\",\n";
        j += "    \"exhaustive\": false,\n";
        j += "    \"samples\": [\n";
        std::vector<std::pair<std::string, std::string>> ss = {{"smallest_nontrivial", total.sample_small}, {"largest", total.sample_large}, {"with_fault", total.sample_fault}};
        bool first = true;
        for (auto &s : ss) { if (s.second.empty()) continue; if (!first) j += ",\n"; first = false; j += "      {\"kind\": \"" + s.first + "\", \"plan\": \"" + json_escape(s.second) + "\"}"; }
        if (first) j += "      \"(no run completed)\"";
        j += "\n    ],\n";
        j += fmt("    \"runs_per_hour\": %.0f,\n    \"logical_steps\": %llu,\n    \"api_calls\": %llu,\n", t_run > 0 ? (double)total.evaluations / t_run * 3600.0 : 0.0, (unsigned long long)total.steps, (unsigned long long)total.calls);
        j += fmt("    \"simulated_time_note\": \"the library reads no clock; simulated time is the logical step count (API calls + token callbacks) = %llu\",\n", (unsigned long long)total.steps);
        j += fmt("    \"model_transitions_covered\": %zu,\n    \"invalid_plans\": %llu,\n    \"workers\": %d,\n    \"shrink_reruns\": %llu,\n", total.transitions.size(), (unsigned long long)total.invalid, J, (unsigned long long)shrink_runs);
        auto group = [&](const char *key, const char *prefix) {
            std::string g = fmt("    \"%s\": {", key); bool f1 = true;
            for (auto &kv : total.cnt) if (kv.first.compare(0, strlen(prefix), prefix) == 0) { if (!f1) g += ", "; f1 = false; g += "\"" + json_escape(kv.first.substr(strlen(prefix))) + "\": " + std::to_string((unsigned long long)kv.second); }
            g += "},\n"; return g;
        };
        j += group("faults_fired", "fault.");
        j += group("probes", "probe.");
        j += group("first_error_classes", "err.first.");
        {
            std::string g = "    \"counters\": {"; bool f1 = true;
            for (auto &kv : total.cnt) { if (kv.first.compare(0, 6, "fault.") == 0 || kv.first.compare(0, 6, "probe.") == 0 || kv.first.compare(0, 10, "err.first.") == 0) continue; if (!f1) g += ", "; f1 = false; g += "\"" + json_escape(kv.first) + "\": " + std::to_string((unsigned long long)kv.second); }
            g += "},\n"; j += g;
        }
        {
            std::string g = "    \"runs_per_engine\": {"; bool f1 = true;
            for (auto &kv : total.per_engine) { if (!f1) g += ", "; f1 = false; g += "\"" + kv.first + "\": " + std::to_string((unsigned long long)kv.second); }
            g += "},\n"; j += g;
        }
        auto list = [&](const std::vector<std::string> &v) { std::string g = "["; for (size_t i = 0; i < v.size(); i++) { if (i) g += ", "; g += "\"" + json_escape(v[i]) + "\""; } return g + "]"; };
        j += "    \"components\": {\"real\": " + list(spec.real_components) + ", \"simulated\": " + list(spec.simulated_components) + "}\n";
        j += "  },\n";
        j += "  \"assumptions\": " + list(spec.assumptions) + ",\n";
        j += fmt("  \"wall_s\": %.2f,\n  \"violations\": %d\n}\n", wall, violations);
        if (!opt.evidence_path.empty()) { size_t sl = opt.evidence_path.rfind('/'); if (sl != std::string::npos) mkdirs(opt.evidence_path.substr(0, sl)); write_file(opt.evidence_path, j); }
    }
    // ---- report
    fprintf(g_out, "binsim: %llu runs (%zu distinct non-trivial), %llu logical steps, %.1f s, %.0f runs/hour\n", (unsigned long long)total.evaluations, total.nontrivial.size(), (unsigned long long)total.steps, t_run, t_run > 0 ? (double)total.evaluations / t_run * 3600.0 : 0.0);
    for (auto &fi : findings) {
        if (fi.info) fprintf(g_out, "INFO property=%s clause=%s not reported: %s (%s)\n", prop.c_str(), fi.clause.c_str(), fi.info_reason.c_str(), fi.detail.c_str());
        else fprintf(g_out, "FAILURE property=%s clause=%s replay=%s sig=%s detail=%s\n", prop.c_str(), fi.clause.c_str(), fi.path.c_str(), hexs(fi.sig).c_str(), json_escape(fi.detail).c_str());
    }
    // scratch cleanup
    { std::string cmd = "rm -rf '" + dir + "'"; if (system(cmd.c_str()) != 0) {} }
    munmap((void *)sh, sizeof(Shared));
    fflush(g_out);
    if (violations) return 1;
    return infra_fail ? 2 : 0;
}

// ---------------------------------------------------------------- shape (for known-finding signatures)
#include "model.hpp"
static void shape_rec(const Node &n, std::string &s) {
    switch (n.t) {
        case V_OBJ: s += "{"; for (size_t i = 0; i < n.kids.size(); i++) { if (i) s += ","; shape_rec(n.kids[i], s); } s += "}"; break;
        case V_ARR: s += "["; for (size_t i = 0; i < n.kids.size(); i++) { if (i) s += ","; shape_rec(n.kids[i], s); } s += "]"; break;
        case V_BOOL: s += "B"; break; case V_INT: s += "I"; break; case V_DBL: s += "D"; break; case V_STR: s += "S"; break; case V_BYTES: s += "Y"; break;
    }
}
static std::string shape_of(const Plan &p) {
    Node r; std::string s;
    if (!p.doc.empty() && decode(p.doc, p.root != 0, r)) { shape_rec(r, s); if (s.size() <= 120) return s; return fmt("tree#%016llx", (unsigned long long)fnv_str(s)); }
    if (p.doc.size() <= 48) return "x" + to_hex(p.doc);
    return fmt("bytes#%zu", p.doc.size());
}

// ---------------------------------------------------------------- replay
int replay_file(const std::string &path) {
    std::string text = slurp(path), err; Plan p;
    if (!plan_from_text(text, p, err)) { fprintf(stderr, "binsim: cannot read plan %s: %s\n", path.c_str(), err.c_str()); return 2; }
    g_scratch = "/verif/build/scratch"; mkdirs(g_scratch);
    ChildRes c = run_in_child(p, p.prop, true);
    std::string clause = c.crashed ? resolve_crash_owner(p, p.prop, c) : c.clause;
    fprintf(g_out, "binsim replay: engine=%s property=%s\n", p.engine.c_str(), p.prop.c_str());
    for (auto &l : c.log) fprintf(g_out, "  %s\n", l.c_str());
    if (!c.stderr_text.empty()) fprintf(g_out, "--- stderr of the replayed run ---\n%s\n", c.stderr_text.c_str());
    if (c.invalid) { fprintf(g_out, "binsim replay: plan cannot be interpreted: %s\n", c.detail.c_str()); return 2; }
    if (clause.empty()) { fprintf(g_out, "binsim replay: all oracles held (trace %016llx)\n", (unsigned long long)c.hash); return 0; }
    fprintf(g_out, "binsim replay: clause=%s trace=%016llx %s\n", clause.c_str(), (unsigned long long)c.hash, c.detail.c_str());
    if (!p.expect_clause.empty() && (p.expect_clause != clause)) fprintf(g_out, "binsim replay: NOTE expected clause %s\n", p.expect_clause.c_str());
    if (clause_owned(clause, p.prop)) { fprintf(g_out, "VIOLATION property=%s replay=%s\n", p.prop.c_str(), path.c_str()); return 1; }
    fprintf(g_out, "INFO clause %s does not belong to property %s\n", clause.c_str(), p.prop.c_str());
    return 0;
}

// ---------------------------------------------------------------- digest (determinism self-test, cross-build comparison)
int digest_cmd(const std::vector<Batch> &batches, const std::string &prop, uint64_t seed, int tier, int jobs) {
    // every worker writes "<batch> <index> <hash> <clause>" lines; the parent prints them in index order
    g_scratch = "/verif/build/scratch";
    std::string dir = g_scratch + fmt("/digest.%d", (int)getpid());
    mkdirs(dir);
    int J = std::max(1, jobs);
    std::vector<pid_t> pids;
    for (int w = 0; w < J; w++) {
        fflush(nullptr);
        pid_t pid = fork();
        if (pid == 0) {
            install_watchdog(watchdog_seconds());
            FILE *f = fopen((dir + fmt("/d%d", w)).c_str(), "w");
            ExecCtx ctx; ctx.prop = "";       // all clauses visible: the digest covers oracle verdicts as well
            for (size_t b = 0; b < batches.size(); b++) {
                const Engine *e = find_engine(batches[b].engine);
                for (uint64_t i = (uint64_t)w; i < batches[b].runs; i += (uint64_t)J) {
                    arm_watchdog(watchdog_seconds());
                    Plan p = e->generate(seed, prop, i, tier);
                    Result r = e->execute(p, ctx);
                    fprintf(f, "%zu %llu %016llx %s\n", b, (unsigned long long)i, (unsigned long long)r.trace_hash, r.clause.empty() ? "-" : r.clause.c_str());
                }
            }
            fclose(f); cov_flush(); _exit(0);
        }
        pids.push_back(pid);
    }
    int bad = 0;
    for (auto pid : pids) { int st; waitpid(pid, &st, 0); if (!(WIFEXITED(st) && WEXITSTATUS(st) == 0)) bad++; }
    struct Row { size_t b; uint64_t i; std::string rest; };
    std::vector<Row> rows;
    for (int w = 0; w < J; w++) { std::ifstream in(dir + fmt("/d%d", w)); std::string line; while (std::getline(in, line)) { std::istringstream is(line); Row r; is >> r.b >> r.i; std::getline(is, r.rest); rows.push_back(r); } }
    std::sort(rows.begin(), rows.end(), [](const Row &a, const Row &b) { return a.b != b.b ? a.b < b.b : a.i < b.i; });
    uint64_t all = 0xcbf29ce484222325ULL;
    for (auto &r : rows) { fprintf(g_out, "%s %llu%s\n", batches[r.b].engine.c_str(), (unsigned long long)r.i, r.rest.c_str()); all = fnv_str(r.rest, all ^ r.i); }
    fprintf(g_out, "TOTAL runs=%zu digest=%016llx dead_workers=%d\n", rows.size(), (unsigned long long)all, bad);
    { std::string cmd = "rm -rf '" + dir + "'"; if (system(cmd.c_str()) != 0) {} }
    return bad ? 2 : 0;
}
