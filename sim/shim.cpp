// shim.cpp - link-time seams of the `yield` build (-Wl,--wrap=..., library compiled -fno-builtin):
//   * libc calls made by the library (printf, snprintf, memmove, memcmp, memset, strlen) become yield points
//     INSIDE a library call, and printed text is captured per task;
//   * the allocator gate: malloc/calloc/realloc/free/aligned_alloc/posix_memalign reached while the calling
//     thread is inside a library call is a violation of "the C library calls no allocator".
// In every other build this file only provides the counters.
#include "session.hpp"
#include <cstdarg>
#include <cstdio>
#include <cstdlib>
#include <atomic>

std::atomic<uint64_t> g_gate_hits(0);           // allocator calls attributed to the library
std::atomic<uint64_t> g_libc_yield_points(0);   // libc calls intercepted inside the library
__thread const char *g_gate_last = nullptr;

// ---------------------------------------------------------------- `instr` build: the LIBRARY is compiled with -finstrument-functions
// (the harness is not). A library function that is entered while it is already active on the same thread is recursion -
// whatever the depth, also when the extra frames stay below the tolerance of the stack measurement.
std::atomic<uint64_t> g_recursion_hits(0);
void *volatile g_recursion_fn = nullptr, *volatile g_recursion_outer = nullptr;
#ifdef SIM_INSTR
extern "C" {
static __thread void *g_act[512]; static __thread int g_actn = 0;
void __cyg_profile_func_enter(void *fn, void *site) __attribute__((no_instrument_function));
void __cyg_profile_func_exit(void *fn, void *site) __attribute__((no_instrument_function));
void __cyg_profile_func_enter(void *fn, void *) {
    for (int i = 0; i < g_actn && i < 512; i++) if (g_act[i] == fn) { g_recursion_hits++; g_recursion_fn = fn; g_recursion_outer = g_act[0]; break; }
    if (g_actn < 512) g_act[g_actn] = fn;
    g_actn++;
}
void __cyg_profile_func_exit(void *, void *) { if (g_actn > 0) g_actn--; }
}
const bool g_instr_build = true;
#else
const bool g_instr_build = false;
#endif

#ifdef SIM_YIELD_BUILD
extern "C" {
int __real_printf(const char *f, ...);
int __real_snprintf(char *s, size_t n, const char *f, ...);
void *__real_memmove(void *d, const void *s, size_t n);
int __real_memcmp(const void *a, const void *b, size_t n);
void *__real_memset(void *d, int c, size_t n);
size_t __real_strlen(const char *s);
static inline void gate(const char *what) { if (g_in_library > 0) { g_gate_hits++; g_gate_last = what; } }
void *__real_malloc(size_t n);
void *__real_calloc(size_t a, size_t b);
void *__real_realloc(void *p, size_t n);
void __real_free(void *p);
void *__real_aligned_alloc(size_t a, size_t n);
int __real_posix_memalign(void **p, size_t a, size_t n);

static inline void libc_yield() {
    // called on the library's stack; run harness code with the "inside library" flag cleared
    int saved = g_in_library; g_in_library = 0;
    g_libc_yield_points++;
    if (g_yield_hook) g_yield_hook(Y_LIBC);
    g_in_library = saved;
}

int __wrap_printf(const char *f, ...) {
    va_list ap; va_start(ap, f);
    int n;
    if (g_in_library > 0) {
        libc_yield();
        int saved = g_in_library; g_in_library = 0;
        char small[512];
        va_list ap2; va_copy(ap2, ap);
        n = vsnprintf(small, sizeof small, f, ap);
        if (n >= 0 && g_capture) {
            if ((size_t)n < sizeof small) g_capture->append(small, (size_t)n);
            else { std::string big((size_t)n + 1, '\0'); vsnprintf(&big[0], big.size(), f, ap2); g_capture->append(big.data(), (size_t)n); }
        }
        va_end(ap2);
        g_in_library = saved;
    } else n = vprintf(f, ap);
    va_end(ap);
    return n;
}
int __wrap_snprintf(char *s, size_t len, const char *f, ...) {
    if (g_in_library > 0) libc_yield();
    va_list ap; va_start(ap, f);
    int n = vsnprintf(s, len, f, ap);
    va_end(ap);
    return n;
}
void *__wrap_memmove(void *d, const void *s, size_t n) { if (g_in_library > 0) libc_yield(); return __real_memmove(d, s, n); }
int __wrap_memcmp(const void *a, const void *b, size_t n) { if (g_in_library > 0) libc_yield(); return __real_memcmp(a, b, n); }
void *__wrap_memset(void *d, int c, size_t n) { if (g_in_library > 0) libc_yield(); return __real_memset(d, c, n); }
size_t __wrap_strlen(const char *s) { if (g_in_library > 0) libc_yield(); return __real_strlen(s); }

char *__real_setlocale(int c, const char *l);
char *__real_strdup(const char *s);
char *__real_getenv(const char *s);
char *__real_strtok(char *s, const char *d);
int __real_rand(void);
char *__wrap_setlocale(int c, const char *l) { gate("setlocale (process-global state)"); return __real_setlocale(c, l); }
char *__wrap_strdup(const char *s) { gate("strdup"); return __real_strdup(s); }
char *__wrap_getenv(const char *s) { gate("getenv (process-global state)"); return __real_getenv(s); }
char *__wrap_strtok(char *s, const char *d) { gate("strtok (static state)"); return __real_strtok(s, d); }
int __wrap_rand(void) { gate("rand (static state)"); return __real_rand(); }
void *__wrap_malloc(size_t n) { gate("malloc"); return __real_malloc(n); }
void *__wrap_calloc(size_t a, size_t b) { gate("calloc"); return __real_calloc(a, b); }
void *__wrap_realloc(void *p, size_t n) { gate("realloc"); return __real_realloc(p, n); }
void __wrap_free(void *p) { gate("free"); __real_free(p); }
void *__wrap_aligned_alloc(size_t a, size_t n) { gate("aligned_alloc"); return __real_aligned_alloc(a, n); }
int __wrap_posix_memalign(void **p, size_t a, size_t n) { gate("posix_memalign"); return __real_posix_memalign(p, a, n); }
}
const bool g_yield_build = true;
#else
const bool g_yield_build = false;
#endif
