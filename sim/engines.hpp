// engines.hpp - the engines of the simulator
#pragma once
#include "core.hpp"
extern const Engine ENGINE_NAV, ENGINE_SLOPPY, ENGINE_TRAVERSE, ENGINE_CAPACITY, ENGINE_TOSTRING, ENGINE_REUSE, ENGINE_CPPWRAP, ENGINE_INTERLEAVE, ENGINE_FOOTPRINT;
