// eng_tostring.cpp - `tostring` engine (C13): the out-of-space fault on the text output is enumerated.
// One plan = one document; execute() asks for the size with a NULL buffer, then re-runs to_string for every
// capacity 0..N+3 into an exact-size pattern-filled heap block. Oracle: self-consistency + memory safety.
#include "session.hpp"
#include "model.hpp"
#include "engines.hpp"
#include "gen_common.hpp"

namespace {

static Op mk(int code, int64_t a = 0, const Bytes &b = Bytes(), int64_t c = 0) { Op o; o.code = code; o.a = a; o.b = b; o.c = c; return o; }

static void text_tree(Rng &r, Node &n, int depth, int &budget, bool &big) {
    // documents that stress the hand-kept `available` counter: long bytes values, huge doubles, NULs, nesting, empties
    int kids = (int)r.below(5);
    if (r.chance(1, 5)) kids = 0;
    std::vector<Bytes> names;
    for (int i = 0; i < kids && budget > 0; i++) {
        Node c; budget--;
        unsigned t = (unsigned)r.below(100);
        if (t < 22 && depth < 9) { c.t = r.chance(1, 2) ? V_OBJ : V_ARR; text_tree(r, c, depth + 1, budget, big); }
        else if (t < 40) {
            c.t = V_BYTES; size_t len = r.chance(1, 3) ? r.below(4) : r.below(300);
            if (r.chance(1, 12)) { static const size_t L[] = {255, 256, 257, 510, 511, 512, 1021, 1022, 1023, 1024, 1533, 2044, 2047, 2048}; len = L[r.below(14)]; }
            else if (r.chance(1, 20)) len = 300 + r.below(1800);
            if (big && r.chance(1, 2)) { static const size_t L[] = {16380, 16383, 32766, 32769, 65534, 65536, 65537}; len = L[r.below(7)]; big = false; }
            c.s.resize(len); for (auto &x : c.s) x = (uint8_t)r.below(256);
        }
        else if (t < 58) { c.t = V_DBL; c.d = r.chance(1, 3) ? 0x7fe1ccf385ebc8a0ULL : interesting_double(r); }
        else if (t < 72) {
            c.t = V_STR; size_t len = r.below(12);
            if (r.chance(1, 20)) { static const size_t L[] = {255, 256, 257, 511, 512, 1023, 1024, 1025, 2048, 4000}; len = L[r.below(10)]; }
            bool huge = big && r.chance(1, 2);
            if (huge) { static const size_t L[] = {32764, 32766, 32768, 65534, 65536, 65540}; len = L[r.below(6)]; big = false; }
            c.s.resize(len); for (auto &x : c.s) x = (!huge && r.chance(1, 8)) ? 0 : (uint8_t)('a' + r.below(26));
        }
        else if (t < 86) { c.t = V_INT; c.i = interesting_int(r); }
        else { c.t = V_BOOL; c.b = r.chance(1, 2); }
        if (!n.kids.empty() && !c.is_container() && !n.kids.back().is_container() && r.chance(1, 6)) {
            // neighbours that are equal or nearly equal (same value, negated / +0.0 and -0.0, off by one)
            c = n.kids.back(); c.name.clear();
            switch (r.below(3)) { case 0: break; case 1: c.d ^= 0x8000000000000000ULL; if (c.i != INT64_MIN) c.i = -c.i; break; default: c.d = (r.chance(1, 2) ? 0x8000000000000000ULL : 0); if (c.i < INT64_MAX) c.i++; break; }
        }
        if (n.t == V_OBJ) {
            Bytes nm;
            do { nm.clear(); size_t l = r.below(5); for (size_t k = 0; k < l; k++) nm.push_back(r.chance(1, 10) ? 0 : (uint8_t)('a' + r.below(26))); } while (std::find(names.begin(), names.end(), nm) != names.end());
            names.push_back(nm); c.name = nm;
        }
        n.kids.push_back(c);
    }
    if (n.t == V_OBJ) std::sort(n.kids.begin(), n.kids.end(), [](const Node &a, const Node &b) { return a.name < b.name; });
}

Plan tostring_generate(uint64_t base, const std::string &prop, uint64_t index, int tier) {
    Plan p; p.engine = "tostring"; p.prop = prop; p.index = index;
    p.seed = run_seed(base, "tostring", prop, index);
    Rng r(p.seed);
    Rng rd = r.fork("document"), rf = r.fork("faults");
    p.root = rd.chance(1, 4) ? 1 : 0;
    Node root; root.t = p.root ? V_ARR : V_OBJ;
    int budget = 1 + (int)rd.below(tier ? 40 : 16);
    bool big = rd.chance(1, tier ? 40 : 150);       // one very long token (string/bytes around 2^14, 2^15, 2^16): few, they are expensive
    if (big) p.faults.push_back("shape:huge_token");
    text_tree(rd, root, 1, budget, big);
    {
        // text-per-byte extremes: N elements of ONE kind and nothing else (a 9-byte double may print as 318 characters, an
        // empty container as 2): whatever the library assumes about the ratio of text to input is met at both ends
        Rng rx = r.fork("dense");
        if (rx.chance(1, 10)) {
            int n = 1 + (int)rx.below(rx.chance(1, 3) ? 64 : 12);
            unsigned kind = (unsigned)rx.below(9);
            Node arr; arr.t = V_ARR;
            for (int i = 0; i < n; i++) {
                Node e;
                switch (kind) {
                    case 0: e.t = V_DBL; e.d = 0x7fefffffffffffffULL; break;                 // 1.797e308
                    case 1: e.t = V_DBL; e.d = 0xffefffffffffffffULL; break;                 // -1.797e308
                    case 2: e.t = V_DBL; e.d = 0x7fe1ccf385ebc8a0ULL ^ ((uint64_t)(i & 1) << 63); break;   // +-1e308
                    case 3: e.t = V_INT; e.i = INT64_MIN + (i & 1); break;
                    case 4: e.t = V_STR; break;                                              // ""
                    case 5: e.t = V_BYTES; break;                                            // 0x
                    case 6: e.t = V_OBJ; break;
                    case 7: e.t = V_ARR; break;
                    default: e.t = V_BOOL; e.b = (i & 1) != 0; break;
                }
                arr.kids.push_back(e);
            }
            root = Node(); root.t = p.root ? V_ARR : V_OBJ;
            if (p.root) root = arr; else { arr.name = Bytes{'a'}; root.kids.push_back(arr); }
            p.faults.push_back(fmt("shape:dense=%d*%u", n, kind));
        }
    }
    {
        // arrays nested up to the format's limit of 255 per object level (they do not count against max_depth), with objects and
        // scalars as elements on the way down: whatever the renderer keeps per array level is exercised at 127 / 128 / 255
        Rng rx = r.fork("deeparrays");
        if (rx.chance(1, 20)) {
            static const int T[] = {3, 17, 64, 126, 127, 128, 129, 130, 200, 254, 255};
            int depth = T[rx.below(11)];
            Node top; top.t = V_ARR; Node *cur = &top;
            for (int i = 1; i < depth; i++) {
                bool deco = rx.chance(1, 4) || i + 3 >= depth || (i >= 125 && i <= 131);
                if (deco && rx.chance(1, 2)) { Node o; o.t = V_OBJ; if (rx.chance(1, 2)) { Node v; v.t = V_INT; v.i = i; v.name = Bytes{'k'}; o.kids.push_back(v); } cur->kids.push_back(o); }
                Node c; c.t = V_ARR; cur->kids.push_back(c);
                size_t at = cur->kids.size() - 1;
                if (deco) { Node o; o.t = rx.chance(1, 2) ? V_OBJ : V_ARR; cur->kids.push_back(o); Node s; s.t = V_BOOL; s.b = true; cur->kids.push_back(s); }
                cur = &cur->kids[at];
            }
            { Node o; o.t = V_OBJ; cur->kids.push_back(o); Node s; s.t = V_INT; s.i = 7; cur->kids.push_back(s); }
            root = Node(); root.t = p.root ? V_ARR : V_OBJ;
            if (p.root) root = top; else { top.name = Bytes{'d'}; root.kids.push_back(top); }
            p.faults.push_back(fmt("shape:deep_arrays=%d", depth));
        }
    }
    encode(root, p.doc);
    p.note = tree_text(root);
    p.max_depth = 10 + (int)rd.below(3);
    p.par["pristine"] = 1;      // the delivered document is the generated one: valid by construction, whatever verify says
    if (rf.chance(1, 4)) { p.par["pristine"] = 0; apply_faults(rf, p.doc, 1 + (int)rf.below(2), p.faults, nullptr); if (p.doc.size() >= 2 && rf.chance(3, 4)) { p.doc[0] = p.root ? 0x42 : 0x40; p.doc.back() = p.root ? 0x43 : 0x41; } }
    p.prefill = rd.chance(1, 2) ? (rd.next() | 1) : 0;
    p.par["nice"] = (int64_t)rd.below(2);
    // to_string restarts the parser itself (it verifies from the top), so what the object was used for before must not matter
    int pre = rd.chance(1, 2) ? (int)rd.below(4) : 0;
    if (pre == 3) {
        Bytes d = p.doc; std::vector<std::string> f2; Rng r3 = r.fork("damage");
        apply_faults(r3, d, 1 + (int)r3.below(2), f2, nullptr);
        if (d.size() == p.doc.size() && d != p.doc) { if (d.size() >= 2 && r3.chance(3, 4)) { d[0] = p.doc[0]; d.back() = p.doc.back(); } p.doc2 = d; p.faults.push_back("F4:damaged_then_repaired_in_place"); }
        else pre = 1;
    }
    p.par["pre"] = pre;
    if (rd.chance(1, 4)) p.par["locale"] = 1;       // the application runs under a locale other than "C"
    p.par["only_cap"] = -1;
    { Rng rl = r.fork("layout"); if (rl.chance(1, 2)) p.par["lead"] = 1 + (int64_t)rl.below(15); }     // the message does not start on an allocator boundary

    p.faults.push_back("F5:every_capacity");
    return p;
}

Result tostring_execute(const Plan &p, const ExecCtx &c) {
    Result r;
    LocaleScope locale_scope(p.P("locale") != 0);
    Trace tr; tr.verbose = c.verbose;
    Sink sink; sink.own = c.prop; sink.cnt = &r.cnt;
    PSession ps(tr, sink, r.cnt);
    ps.lead = (int)p.P("lead");
    ps.setup(p.max_depth, p.prefill, p.doc, p.root != 0);
    int64_t nice = p.P("nice", 0);
    int pre = (int)p.P("pre");
    if (pre == 3 && !p.doc2.empty()) ps.src = p.doc2;       // the damaged version is delivered first
    Outcome i = ps.call(mk(p.root ? P_INIT_ARR : P_INIT_OBJ, -1));
    if (!i.ret && pre != 3) {
        if (p.P("pristine") && p.doc.size() >= 2) sink.fail("C13.valid_rejected", "init rejects a generated, undamaged document: to_string cannot serve it");
        bump(r.cnt, "tostring.init_rejected"); r.trace_hash = tr.h; r.steps = ps.steps; r.clause = sink.clause; r.detail = sink.detail; return r;
    }
    bool valid;
    {   // validity of the document the sweep will see: real verify on a fresh parser
        Trace t2; Sink s2; s2.own = "~"; std::map<std::string, uint64_t> c2;
        PSession q(t2, s2, c2);
        q.setup(p.max_depth, 0, p.doc, p.root != 0);
        Outcome a = q.call(mk(p.root ? P_INIT_ARR : P_INIT_OBJ, -1));
        valid = a.ret && q.call(mk(P_VERIFY)).ret;
        if (!a.ret) { bump(r.cnt, "tostring.init_rejected"); r.trace_hash = tr.h; r.steps = ps.steps; return r; }
    }
    // prior use of the object
    if (pre >= 1) {
        ps.call(mk(p.root ? P_ENTER_ARR : P_ENTER_OBJ));
        int n = 1 + (int)(p.seed % 5);
        for (int k = 0; k < n; k++) { Outcome x = ps.call(mk(P_NEXT)); if (k % 2 == 0 && x.ret) ps.call(mk(P_ENTER_OBJ)); }
        if (pre == 2) { ps.call(mk(P_NEXT_ENSURE, 0, Bytes(), 4)); ps.call(mk(P_FIELD_NULL, 0)); }      // latch an error
        if (pre == 3) {
            if (p.seed & 1) ps.call(mk(P_VERIFY)); else ps.call(mk(P_TO_STRING_NULL, 3, Bytes(), nice));   // the damaged message is rejected by verify / to_string themselves
            ps.src = p.doc; ps.rewrite(p.doc);                                                            // repaired in place
            if (p.seed & 2) ps.call(mk(P_RESET));
        }
        bump(r.cnt, fmt("tostring.prior_use_%d", pre));
        if (ps.err() != 0) bump(r.cnt, std::string("probe.to_string_on_parser_in_error_") + err_name(ps.err()));
    }
    if (!valid && p.P("pristine")) {
        // validity of a generated, undamaged document is decided by the model (it is well-formed and at most 9 levels deep)
        Node chk; Bytes re;
        if (decode(p.doc, p.root != 0, chk)) { encode(chk, re); if (re == p.doc && need_depth(chk, p.root != 0) <= p.max_depth) sink.fail("C13.valid_rejected", "binson_parser_verify rejects a generated, undamaged, canonical document within max_depth: to_string cannot serve it"); }
    }
    bump(r.cnt, valid ? "tostring.valid_doc" : "tostring.invalid_doc");
    Outcome q = ps.call(mk(P_TO_STRING_NULL, (int64_t)(p.seed % 97), Bytes(), nice));      // incoming *size is arbitrary for a NULL buffer
    size_t N = q.size_out;
    if (q.ret) sink.fail("C13.null_query_true", "to_string returned true for a NULL buffer");
    if (valid && N == 0) sink.fail("C13.null_query_size", "NULL query reported 0 bytes for a valid document");
    std::vector<size_t> caps;
    int64_t only = p.P("only_cap", -1);
    size_t top = N + 3;
    if (only >= 0) caps.push_back((size_t)only);
    else if (top <= 4100) for (size_t cc = 0; cc <= top; cc++) caps.push_back(cc);
    else {
        // long texts: boundary-biased sample; very long ones (huge tokens) fewer points, every run must stay far below the watchdog
        bool huge = N > 20000;
        std::set<size_t> s; Rng rc(p.seed ^ 0x7057);
        for (size_t cc = 0; cc < (huge ? 16u : 64u); cc++) s.insert(cc);
        for (long d = huge ? -16 : -40; d <= 3; d++) if ((long)N + d >= 0) s.insert((size_t)((long)N + d));
        for (int k = 0; k < (huge ? 50 : 400); k++) s.insert(rc.below(top + 1));
        caps.assign(s.begin(), s.end());
    }
    std::string full; bool have_full = false;
    uint64_t points = 0;
    for (size_t cap : caps) {
        if (sink.failed() || ps.dead) break;
        points++;
        Outcome o = ps.call(mk(P_TO_STRING, (int64_t)cap, Bytes(), nice));
        if (!valid) {
            if (o.ret) sink.fail("C13.invalid_true", fmt("cap=%zu: to_string returned true for a document verify rejects", cap));
            continue;
        }
        if (cap < N) {
            if (o.ret) sink.fail("C13.small_true", fmt("cap=%zu < needed %zu: returned true", cap, N));
            else if (o.size_out != N) sink.fail("C13.small_size", fmt("cap=%zu: reported size %zu, NULL query said %zu", cap, o.size_out, N));
        } else {
            if (!o.ret) sink.fail("C13.enough_false", fmt("cap=%zu >= needed %zu: returned false (size out %zu)", cap, N, o.size_out));
            else {
                if (o.size_out != N - 1) sink.fail("C13.enough_size", fmt("cap=%zu: *size=%zu, expected text length %zu", cap, o.size_out, N - 1));
                if (o.text.size() != N - 1) sink.fail("C13.terminator", fmt("cap=%zu: stored text has strlen %zu, expected %zu followed by NUL", cap, o.text.size(), N - 1));
                if (!have_full) { full = o.text; have_full = true; }
                else if (o.text != full) sink.fail("C13.text_differs", fmt("cap=%zu: text differs from the text produced with another sufficient capacity", cap));
            }
        }
    }
    ps.end_checks();
    bump(r.cnt, "tostring.points", points);
    if (valid && N > 300) bump(r.cnt, "probe.text_over_300_bytes");
    r.clause = sink.clause; r.detail = sink.detail;
    r.trace_hash = tr.h; r.steps = ps.steps; r.calls = ps.calls;
    r.nontrivial = valid && N > 9;
    if (c.verbose) r.log = tr.log;
    return r;
}

void tostring_shrink(const Plan &p, std::vector<Plan> &out) {
    Node root;
    if (p.P("only_cap", -1) < 0) for (int64_t c = 0; c < 80; c++) { Plan q = p; q.par["only_cap"] = c; out.push_back(q); }
    if (decode(p.doc, p.root != 0, root)) {
        for (size_t i = 0; i < root.kids.size(); i++) { Node t = root; t.kids.erase(t.kids.begin() + (long)i); Plan q = p; encode(t, q.doc); q.note = tree_text(t); out.push_back(q); }
        for (size_t i = 0; i < root.kids.size(); i++) if (root.kids[i].s.size() > 1) { Node t = root; t.kids[i].s.resize(t.kids[i].s.size() / 2); Plan q = p; encode(t, q.doc); q.note = tree_text(t); out.push_back(q); }
    } else {
        size_t n = p.doc.size();
        for (size_t chunk = n / 2; chunk >= 1; chunk /= 2) { for (size_t st = 0; st + chunk <= n && out.size() < 300; st += chunk) { Plan q = p; q.doc.erase(q.doc.begin() + (long)st, q.doc.begin() + (long)(st + chunk)); q.note.clear(); out.push_back(q); } if (chunk == 1) break; }
    }
}

} // namespace

extern const Engine ENGINE_TOSTRING = {"tostring", tostring_generate, tostring_execute, tostring_shrink, nullptr};
