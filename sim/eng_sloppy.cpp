// eng_sloppy.cpp - `sloppy` engine: a faulty caller (F8) issues arbitrary API calls, ignoring return values,
// on valid / truncated / corrupted / random bytes delivered in exact-size blocks, with a garbage-prefilled
// parser object and a state array of exactly max_depth entries. Serves C01 (safety), C09 (latch monitor),
// C16 (step budget), and is reused as a script source by reuse / interleave / xbuild.
#include "session.hpp"
#include "model.hpp"
#include "engines.hpp"
#include "gen_common.hpp"
#include <cstdlib>

// ---------------------------------------------------------------- shared generation helpers (also used by reuse/interleave)
void collect_names(const Node &n, std::vector<Bytes> &out) {
    // names to look up, and string values to compare with (string_equals): both go into the same pool
    if (n.t == V_STR && n.s.size() <= 40) out.push_back(n.s);
    if (n.t == V_OBJ) for (auto &k : n.kids) out.push_back(k.name);
    for (auto &k : n.kids) collect_names(k, out);
}

Bytes gen_document(Rng &rd, int tier, int &root_kind, Node *tree_out, bool &valid, std::vector<std::string> &faults, int *need_out) {
    // returns delivered bytes; `valid` tells whether no fault was applied
    GenKnobs k;
    unsigned cls = (unsigned)rd.below(100);
    k.max_nodes = cls < 35 ? 1 + (int)rd.below(6) : cls < 85 ? 4 + (int)rd.below(18) : 15 + (int)rd.below(tier ? 80 : 30);
    k.alphabet = (int)rd.below(3);
    k.long_strings = rd.chance(1, 8) ? (rd.chance(1, tier ? 3 : 4) ? (rd.chance(1, 5) ? 3 : 2) : 1) : 0;
    k.p_container = 20 + (int)rd.below(45);
    k.p_empty = 10 + (int)rd.below(40);
    k.max_obj_depth = 1 + (int)rd.below(6);
    k.max_arr_depth = 1 + (int)rd.below(5);
    if (rd.chance(1, 6)) k.max_kids = 3 + (int)rd.below(10);
    { static const int WIDE[] = {17, 33, 65, 129, 255, 256, 257, 300}; if (rd.chance(1, tier ? 30 : 80)) k.wide = WIDE[rd.below(8)]; }
    root_kind = rd.chance(35, 100) ? 1 : 0;
    { Rng rl = rd.fork("layout"); if (rl.chance(1, 4)) pick_name_family(rl, k); }
    Node root = gen_tree(rd, k, root_kind != 0);
    Bytes doc; encode(root, doc);
    if (need_out) *need_out = std::max(1, need_depth(root, root_kind != 0));
    if (tree_out) *tree_out = root;
    valid = true;
    (void)faults;
    return doc;
}

void apply_faults(Rng &rf, Bytes &doc, int count, std::vector<std::string> &faults, const Bytes *other) {
    for (int i = 0; i < count; i++) {
        unsigned c = (unsigned)rf.below(100);
        int kind = c < 25 ? 1 : c < 70 ? 2 : c < 95 ? 3 : 4;
        if (kind == 4 && !other) kind = 2;
        std::string f = fault_apply(rf, doc, kind, other);
        if (!f.empty()) faults.push_back(f);
    }
}

int g_deep_arrays = 0;      // set by deep_document: the longest run of directly nested arrays it produced (0 = not an array chain)
Bytes deep_document(Rng &rd, int &root_kind, std::vector<std::string> &faults, int &need) {
    g_deep_arrays = 0;
    // nesting-resource exhaustion (F6): arrays nested around the 255 limit, objects nested beyond max_depth
    Bytes doc;
    if (rd.chance(1, 3)) {
        // objects and arrays interleaved: the object count sits around max_depth / 255, and the deepest object may be an
        // array element or a field value (the two are entered on different paths of the state machine)
        int nobj = 2 + (int)rd.below(12);
        if (rd.chance(1, 2)) { static const int T[] = {9, 10, 11, 16, 64, 128, 253, 254, 255, 256, 257}; nobj = T[rd.below(11)]; }
        root_kind = rd.chance(1, 4) ? 1 : 0;
        std::vector<uint8_t> closers;
        if (root_kind) { doc.push_back(0x42); closers.push_back(0x43); }
        bool in_array = root_kind != 0;
        int narr = 0;
        for (int i = 0; i < nobj; i++) {
            if (i > 0 && !in_array) { doc.push_back(0x14); doc.push_back(0x01); doc.push_back('a'); }
            if (i > 0 && rd.chance(1, 3)) { int k = 1 + (int)rd.below(3); for (int j = 0; j < k; j++) { doc.push_back(0x42); closers.push_back(0x43); narr++; } in_array = true; }
            doc.push_back(0x40); closers.push_back(0x41); in_array = false;
        }
        for (size_t i = closers.size(); i-- > 0;) doc.push_back(closers[i]);
        need = nobj + (root_kind ? 1 : 0);
        faults.push_back(fmt("F6:mixed objects=%d arrays=%d", nobj, narr));
        return doc;
    }
    if (rd.chance(1, 2)) {
        int n = 250 + (int)rd.below(10);         // 250..259 nested arrays: 256+ must raise MAX_DEPTH_ARRAY
        // the chain sits directly in the root array, or in the root object, or 1..3 object levels further down (every object
        // level keeps its own array counter); the innermost array may hold an object
        int wrap = rd.chance(1, 2) ? 0 : 1 + (int)rd.below(4);
        root_kind = wrap ? 0 : 1;
        for (int i = 0; i < wrap; i++) { doc.push_back(0x40); doc.push_back(0x14); doc.push_back(0x01); doc.push_back('a'); }
        for (int i = 0; i < n; i++) doc.push_back(0x42);
        unsigned leaf = (unsigned)rd.below(4);
        if (leaf == 1) { doc.push_back(0x10); doc.push_back(0x05); }
        else if (leaf == 2) { doc.push_back(0x40); doc.push_back(0x41); }
        else if (leaf == 3) { doc.push_back(0x40); doc.push_back(0x14); doc.push_back(0x01); doc.push_back('k'); doc.push_back(0x44); doc.push_back(0x41); doc.push_back(0x10); doc.push_back(0x05); }
        for (int i = 0; i < n; i++) doc.push_back(0x43);
        for (int i = 0; i < wrap; i++) doc.push_back(0x41);
        need = std::max(1, wrap) + (leaf >= 2 ? 1 : 0);
        g_deep_arrays = n;
        faults.push_back(fmt("F6:arrays=%d in %d objects", n, wrap));
    } else {
        int n = 2 + (int)rd.below(rd.chance(1, 4) ? 260 : 12);
        if (rd.chance(1, 4)) { static const int T[] = {8, 16, 32, 64, 127, 128, 129, 254, 255, 256}; n = T[rd.below(10)]; }
        root_kind = 0;
        for (int i = 0; i < n; i++) { doc.push_back(0x40); if (i + 1 < n) { doc.push_back(0x14); doc.push_back(0x01); doc.push_back('a'); } }
        for (int i = 0; i < n; i++) doc.push_back(0x41);
        need = n;
        faults.push_back(fmt("F6:objects=%d", n));
    }
    return doc;
}

static Op mk(int code, int64_t a = 0, const Bytes &b = Bytes(), int64_t c = 0) { Op o; o.code = code; o.a = a; o.b = b; o.c = c; return o; }

void gen_sloppy_ops(Rng &ro, std::vector<Op> &ops, int nops, const std::vector<Bytes> &names, size_t doclen, int root_kind, bool with_restarts) {
    for (int i = 0; i < nops; i++) {
        unsigned c = (unsigned)ro.below(1000);
        auto name = [&]() -> Bytes {
            if (!names.empty() && ro.chance(3, 4)) { Bytes n = names[ro.below(names.size())]; unsigned m = (unsigned)ro.below(10); if (m == 0 && !n.empty()) n.pop_back(); else if (m == 1) n.push_back((uint8_t)ro.below(256)); return n; }
            Bytes n(ro.below(4)); for (auto &x : n) x = (uint8_t)("ab\x00\x7f\x80\xff"[ro.below(6)]); return n;
        };
        if (c < 60) {           // a caller that walks down: next, then try to enter whatever it found (the wrong kind is harmless)
            ops.push_back(mk(P_NEXT)); ops.push_back(mk(ro.chance(1, 2) ? P_ENTER_OBJ : P_ENTER_ARR)); ops.push_back(mk(ro.chance(1, 2) ? P_ENTER_ARR : P_ENTER_OBJ)); i += 2;
        }
        else if (c < 200) ops.push_back(mk(P_NEXT));
        else if (c < 260) ops.push_back(mk(P_ENTER_OBJ));
        else if (c < 310) ops.push_back(mk(P_ENTER_ARR));
        else if (c < 360) ops.push_back(mk(P_LEAVE_OBJ));
        else if (c < 400) ops.push_back(mk(P_LEAVE_ARR));
        else if (c < 430) ops.push_back(mk(P_GET_TYPE));
        else if (c < 455) ops.push_back(mk(P_GET_NAME));
        else if (c < 475) ops.push_back(mk(P_GET_STRING));
        else if (c < 495) ops.push_back(mk(P_GET_BYTES));
        else if (c < 515) ops.push_back(mk(P_GET_INT));
        else if (c < 530) ops.push_back(mk(P_GET_BOOL));
        else if (c < 545) ops.push_back(mk(P_GET_DOUBLE));
        else if (c < 560) ops.push_back(mk(P_DEPTH));
        else if (c < 600) ops.push_back(mk(P_FIELD, 0, name()));
        else if (c < 650) ops.push_back(mk(P_FIELD_LEN, 0, name()));
        else if (c < 670) ops.push_back(mk(P_FIELD_ENS, 0, name(), 1 + (int64_t)ro.below(9)));
        else if (c < 695) ops.push_back(mk(P_FIELD_ENS_LEN, 0, name(), 1 + (int64_t)ro.below(9)));
        else if (c < 705) ops.push_back(mk(P_FIELD_NULL, (int64_t)ro.below(4), Bytes(), (int64_t)ro.below(8)));
        else if (c < 740) ops.push_back(mk(P_NEXT_ENSURE, 0, Bytes(), (int64_t)ro.below(10)));
        else if (c < 760) {
            Bytes s;
            if (!names.empty() && ro.chance(3, 4)) s = names[ro.below(names.size())];     // a caller compares with strings it expects in the document
            else { s.resize(ro.below(5)); for (auto &x : s) x = (uint8_t)('a' + ro.below(3)); }
            ops.push_back(mk(P_STR_EQ, 0, s));
        }
        else if (c < 800) ops.push_back(mk(P_GET_RAW));
        else if (c < 830) ops.push_back(mk(P_TO_WRITER, (int64_t)ro.below(doclen + 4)));
        else if (c < 850) ops.push_back(mk(P_PRINT));
        else if (c < 870) ops.push_back(mk(P_TO_STRING, (int64_t)ro.below(ro.chance(1, 2) ? 8 : 4 * doclen + 16), Bytes(), (int64_t)ro.below(2)));
        else if (c < 880) ops.push_back(mk(P_TO_STRING_NULL, (int64_t)ro.below(100)));
        else if (c < 910 && with_restarts) ops.push_back(mk(P_RESET));
        else if (c < 940 && with_restarts) ops.push_back(mk(P_VERIFY));
        else if (c < 970 && with_restarts) {
            int64_t len = -1; unsigned m = (unsigned)ro.below(10);
            if (m == 0) len = 0; else if (m == 1) len = 1; else if (m == 2) len = 2; else if (m == 3) len = (int64_t)ro.below(doclen + 1);
            bool arr = ro.chance(4, 5) ? root_kind != 0 : root_kind == 0;
            ops.push_back(mk(arr ? P_INIT_ARR : P_INIT_OBJ, len));
        }
        else ops.push_back(mk(P_NEXT));
    }
}

namespace {

Plan sloppy_generate(uint64_t base, const std::string &prop, uint64_t index, int tier) {
    Plan p; p.engine = "sloppy"; p.prop = prop; p.index = index;
    p.seed = run_seed(base, "sloppy", prop, index);
    Rng r(p.seed);
    Rng rd = r.fork("document"), rf = r.fork("faults"), ro = r.fork("operations");
    unsigned cls = (unsigned)rd.below(100);
    std::vector<Bytes> names; int need = 1; bool valid = true; int deep_arrays = 0;
    if (cls < 8) {              // short raw strings, lengths 0..8 dense
        size_t n = rd.below(9);
        p.doc.resize(n);
        static const uint8_t toks[] = {0x40, 0x41, 0x42, 0x43, 0x44, 0x45, 0x46, 0x10, 0x11, 0x12, 0x13, 0x14, 0x15, 0x16, 0x18, 0x19, 0x1a, 0x00, 0x01, 0xff};
        for (auto &x : p.doc) x = rd.chance(3, 4) ? toks[rd.below(sizeof toks)] : (uint8_t)rd.below(256);
        p.root = rd.chance(1, 2) ? 1 : 0;
        if (n >= 2 && rd.chance(3, 4)) { p.doc[0] = p.root ? 0x42 : 0x40; p.doc[n - 1] = p.root ? 0x43 : 0x41; }
        p.faults.push_back("raw:short");
    } else if (cls < 14) {      // random bytes with a plausible frame
        size_t n = 2 + rd.below(tier ? 400 : 60);
        p.doc.resize(n);
        for (auto &x : p.doc) x = (uint8_t)rd.below(256);
        p.root = rd.chance(1, 2) ? 1 : 0;
        p.doc[0] = p.root ? 0x42 : 0x40; p.doc[n - 1] = p.root ? 0x43 : 0x41;
        p.faults.push_back("raw:random");
    } else if (cls < 20) {
        p.doc = deep_document(rd, p.root, p.faults, need);
        deep_arrays = g_deep_arrays;
    } else {
        Node tree;
        p.doc = gen_document(rd, tier, p.root, &tree, valid, p.faults, &need);
        collect_names(tree, names);
        p.note = tree_text(tree);
        Bytes pristine = p.doc;
        if (cls >= 50) apply_faults(rf, p.doc, 1 + (int)rf.below(3), p.faults, nullptr);
        // the stored message may be repaired (or damaged) in place between two calls: doc2 is the other version, same length
        if (p.doc.size() == pristine.size() && p.doc != pristine) p.doc2 = pristine;
        else if (rf.chance(1, 3)) { p.doc2 = pristine; Rng r2 = rf.fork("damage"); std::vector<std::string> f2; Bytes d = pristine; apply_faults(r2, d, 1, f2, nullptr); if (d.size() == pristine.size()) p.doc2 = d; else p.doc2.clear(); }
    }
    unsigned dm = (unsigned)rd.below(100);
    if (dm < 15) p.max_depth = 1; else if (dm < 25) p.max_depth = 2; else if (dm < 55) p.max_depth = std::max(1, std::min(255, need + (int)rd.below(3) - 1));
    else if (dm < 65) p.max_depth = 255; else if (dm < 85) p.max_depth = std::min(255, need + (int)rd.below(3)); else p.max_depth = 1 + (int)rd.below(255);
    if (p.max_depth < need) p.faults.push_back("F6:max_depth_below_nesting");
    // an array chain is well-formed by construction: what verify must say about it is known (the format allows 255 arrays per
    // object level; objects must fit max_depth). 1 = must be rejected, 2 = must be accepted
    if (deep_arrays) p.par["expect_verify"] = (deep_arrays <= 255 && need <= p.max_depth) ? 2 : (deep_arrays > 255 && need <= p.max_depth) ? 3 : 1;    // 3: rejected, and for exactly this reason: MAX_DEPTH_ARRAY
    p.prefill = rd.chance(9, 10) ? (rd.next() | 1) : 0;
    if (prop == "C09" || prop == "C16") p.prefill = rd.chance(1, 8) ? p.prefill : 0;
    // first call is always an init (nothing else is defined on an object that was never initialised)
    {
        int64_t len = -1; unsigned m = (unsigned)ro.below(40);
        if (m == 0) len = 0; else if (m == 1) len = 1; else if (m == 2) len = (int64_t)ro.below(p.doc.size() + 1);
        bool arr = ro.chance(9, 10) ? p.root != 0 : p.root == 0;
        p.ops.push_back(mk(arr ? P_INIT_ARR : P_INIT_OBJ, len));
        if (len >= 0) p.faults.push_back("F1:init_len");
    }
    // most callers at least try to enter the root
    if (ro.chance(4, 5)) p.ops.push_back(mk(p.root ? P_ENTER_ARR : P_ENTER_OBJ));
    gen_sloppy_ops(ro, p.ops, 1 + (int)ro.below(60), names, p.doc.size(), p.root, true);
    if (!p.doc2.empty()) {
        // F4/F7: rewrite in place at 1-2 random points, usually followed by the restart a careful application would do
        int n = 1 + (int)ro.below(2);
        for (int i = 0; i < n; i++) {
            size_t at = 1 + ro.below(p.ops.size());
            std::vector<Op> ins; ins.push_back(mk(H_REWRITE, i % 2));
            unsigned m = (unsigned)ro.below(10);
            // an application that changes the stored bytes restarts the parser before it goes on (no promise is made for a
            // traversal that continues over bytes that changed under it)
            if (m < 4) ins.push_back(mk(P_RESET)); else if (m < 7) ins.push_back(mk(P_VERIFY)); else if (m < 8) ins.push_back(mk(P_TO_STRING_NULL)); else if (m < 9) ins.push_back(mk(P_PRINT)); else ins.push_back(mk(P_RESET));
            if (ro.chance(2, 3)) ins.push_back(mk(p.root ? P_ENTER_ARR : P_ENTER_OBJ));
            p.ops.insert(p.ops.begin() + (long)at, ins.begin(), ins.end());
        }
        p.faults.push_back("F4:rewrite_in_place");
    }
    p.faults.push_back("F8:faulty_caller");
    if (prop != "C16" && ro.chance(1, 5)) p.par["nocb"] = 1;      // an application without a token callback
    if (prop == "C16" && r.fork("nocb").chance(1, 4)) p.par["nocb"] = 1;   // termination without a callback to count steps: decided by the CPU-time watchdog alone
    { Rng rl = r.fork("layout"); if (rl.chance(1, 2)) p.par["lead"] = 1 + (int64_t)rl.below(15); }     // the message does not start on an allocator boundary
    if (prop == "C16" && ro.chance(1, 2)) p.par["unguarded"] = 1;   // termination is promised for ANY call sequence, also lookups issued outside an object
    if (ro.chance(1, 10)) p.par["locale"] = 1;
    if (getenv("VERIF_GUARD")) p.par["guard"] = 1;                 // delivered buffer ends at a PROT_NONE page (plain build cross-check of ASan)
    return p;
}

Result sloppy_execute(const Plan &p, const ExecCtx &c) {
    Result r;
    LocaleScope locale_scope(p.P("locale") != 0);
    Trace tr; tr.verbose = c.verbose;
    Sink sink; sink.own = c.prop; sink.cnt = &r.cnt;
    PSession ps(tr, sink, r.cnt);
    ps.lead = (int)p.P("lead");
    ps.setup(p.max_depth, p.prefill, p.doc, p.root != 0, (int)p.P("guard", 0));
    ps.use_cb = !p.P("nocb");
    if (p.P("unguarded")) ps.guard_lookups = false;
    uint64_t trues = 0;
    bool other_error = false;
    for (auto &op : p.ops) {
        if (ps.dead) break;
        if (op.code == H_REWRITE) { if (ps.inited && !p.doc2.empty()) ps.rewrite((op.a & 1) ? p.doc : p.doc2); continue; }     // a = 0: the other version, 1: back to the delivered one
        Outcome o = ps.call(op);
        if (o.skipped) continue;
        if (o.ret && op.code != P_DEPTH && !(op.code >= P_GET_TYPE && op.code <= P_GET_TYPE)) trues++;
        bool is_init = op.code == P_INIT_OBJ || op.code == P_INIT_ARR;
        if (o.err != 0 && !is_init && op.code != P_RESET) other_error = true;
    }
    ps.end_checks();
    if (p.P("expect_verify") && !sink.failed()) {
        Trace t2; Sink s2; s2.own = "~"; std::map<std::string, uint64_t> c2;
        PSession q(t2, s2, c2);
        q.setup(p.max_depth, 0, p.doc, p.root != 0);
        Outcome a = q.call(mk(p.root ? P_INIT_ARR : P_INIT_OBJ, -1));
        Outcome v; if (a.ret) v = q.call(mk(P_VERIFY));
        bool accepted = a.ret && v.ret;
        bump(r.cnt, accepted ? "probe.array_chain_accepted" : "probe.array_chain_rejected");
        if (p.P("expect_verify") == 3 && !accepted && a.ret && v.err != BINSON_ERROR_MAX_DEPTH_ARRAY) sink.fail("C09.parser.error_not_raised", fmt("an array chain of more than 255 levels is rejected with %s: the MAX_DEPTH_ARRAY class is not raised where it is due", err_name(v.err)));
        if (p.P("expect_verify") != 2 && accepted) sink.fail("C09.parser.error_not_raised", "verify accepts an array chain beyond the format's limits (more than 255 arrays in one object level, or objects beyond max_depth): the MAX_DEPTH error class is not raised");
        if (p.P("expect_verify") == 2 && !accepted) sink.fail("C09.parser.error_without_cause", fmt("verify rejects a well-formed array chain within the limits (%s)", err_name(a.ret ? v.err : a.err)));
    }
    r.clause = sink.clause; r.detail = sink.detail;
    r.trace_hash = tr.h; r.steps = ps.steps; r.calls = ps.calls;
    bump(r.cnt, "sloppy.post_error_calls", ps.post_error_calls);
    r.cnt["c16.max_slack"] = ps.max_slack;
    if (p.prop == "C09") r.nontrivial = ps.post_error_calls > 0;
    else if (p.prop == "C16") r.nontrivial = ps.total_cb >= 3;
    else r.nontrivial = trues >= 3 || other_error;
    if (c.verbose) r.log = tr.log;
    return r;
}

void sloppy_shrink(const Plan &p, std::vector<Plan> &out) {
    size_t n = p.doc.size();
    for (size_t chunk = n / 2; chunk >= 1; chunk /= 2) {
        for (size_t st = 0; st + chunk <= n && out.size() < 160; st += chunk) {
            Plan q = p; q.doc.erase(q.doc.begin() + (long)st, q.doc.begin() + (long)(st + chunk)); q.note.clear(); out.push_back(q);
        }
        if (chunk == 1) break;
    }
    if (p.max_depth > 1) { Plan q = p; q.max_depth = 1; out.push_back(q); Plan q2 = p; q2.max_depth = p.max_depth / 2; if (q2.max_depth >= 1) out.push_back(q2); Plan q3 = p; q3.max_depth--; out.push_back(q3); }
    if (p.prefill) { Plan q = p; q.prefill = 0; out.push_back(q); }
}

} // namespace

extern const Engine ENGINE_SLOPPY = {"sloppy", sloppy_generate, sloppy_execute, sloppy_shrink, nullptr};
