// eng_nav.cpp - `nav` engine: histories of protocol-following navigation calls on valid documents,
// checked step by step against the reference cursor (refinement). Serves C06, C07, C11.
#include "session.hpp"
#include "model.hpp"
#include "engines.hpp"

namespace {

struct Frame { const Node *c; size_t next; int pos; bool pending; };

static int btype_of(VType t) {
    switch (t) { case V_OBJ: return 1; case V_ARR: return 3; case V_BOOL: return 5; case V_INT: return 6; case V_DBL: return 7; case V_STR: return 8; default: return 9; }
}

struct Cursor {
    const Node *root = nullptr; bool array_root = false;
    std::vector<Frame> st;
    bool entered = false, done = false, wrong_type_end = false;
    Bytes last_query; bool have_last = false;
    size_t doc_len = 0;
    uint64_t skipped_or_early = 0;

    int depth() const { int d = array_root ? 1 : 0; for (auto &f : st) if (f.c->t == V_OBJ) d++; return d; }
    bool enabled(const Op &o) const {
        if (o.code == M_RESTART) return entered;     // a restart in the middle of (or after) a traversal, also after a WRONG_TYPE error (every restart clears it)
        if (done) return false;
        switch (o.code) {
            case M_ENTER: return !entered || (!st.empty() && st.back().pending);
            case M_NEXT: case M_LEAVE: return entered && !st.empty();
            case M_OBSERVE: return true;
            // (positions with NO current value - document start, just after entering, after the last element - are outside C11:
            // it speaks of the cursor being on a container or on a value of another type; the unchanged library itself moves the
            // cursor when get_raw is called right after entering a container, see DESIGN.md section 13 round 9)
            case M_STREQ: case M_RAW: case M_TO_WRITER: return entered && !st.empty() && st.back().pos >= 0;
            case M_FIELD: case M_FIELD_ENS: return entered && !st.empty() && st.back().c->t == V_OBJ;
        }
        return false;
    }
    const Node *current() const { if (st.empty() || st.back().pos < 0) return nullptr; return &st.back().c->kids[(size_t)st.back().pos]; }
    // position class for transition coverage
    int pos_class() const {
        if (!entered) return 0;
        if (st.empty()) return 1;
        const Frame &f = st.back();
        if (f.pos < 0) return f.next >= f.c->kids.size() ? 2 : 3;
        const Node &k = f.c->kids[(size_t)f.pos];
        if (f.pending) return k.t == V_OBJ ? 4 : 5;
        return k.is_container() ? 6 : 7;
    }
};

static Bytes resolve_name(const Op &o, const Cursor &c) {
    const Frame &f = c.st.back();
    const std::vector<Node> &k = f.c->kids;
    size_t n = k.size();
    auto pick_any = [&](int64_t i) -> Bytes { if (!n) return Bytes{'q'}; return k[(size_t)((uint64_t)i % n)].name; };
    switch (o.a % 16) {
        case 8: {   // a name about as long as the whole document, or much longer (it cannot be in it): prefix of a present name + filler
            Bytes b = pick_any(o.c / 8);
            size_t L = c.doc_len + (size_t)(o.c / 8 % 4);
            if (L > 0) L -= 1;
            if (o.c / 32 % 3 == 0) L = 3 * c.doc_len + 40;
            b.resize(L, (uint8_t)(o.c / 8 % 2 ? 'm' : 0xff));
            return b;
        }
        case 0: {   // present at/after the cursor
            if (f.next >= n) return Bytes{0xff, 0xff, 0xff};
            return k[f.next + (size_t)((uint64_t)o.c / 8 % (n - f.next))].name;
        }
        case 1: {   // present before the cursor (descending query)
            if (f.next == 0 || !n) return Bytes{};
            return k[(size_t)((uint64_t)o.c / 8 % f.next)].name;
        }
        case 2: { Bytes b = pick_any(o.c / 8); b.push_back(0x00); return b; }                  // absent-between: smallest extension
        case 3: { Bytes b = pick_any(o.c / 8); if (!b.empty()) b.pop_back(); return b; }       // proper prefix
        case 4: { Bytes b = pick_any(o.c / 8); b.push_back((uint8_t)(o.c / 8 % 3 == 0 ? 0x80 : o.c / 8 % 3 == 1 ? 'a' : 0xff)); return b; }  // one-byte extension
        case 5: if (c.have_last) return c.last_query; return pick_any(o.c / 8);               // the previous query again
        case 6: return Bytes{0xff, 0xff, 0xff, 0xff};                                          // absent-after
        default: { Bytes b = pick_any(o.c / 8); if (!b.empty()) { if (b.back() > 0) b.back()--; else b.pop_back(); } return b; }   // just below a present name
    }
}

static bool has_nul(const Bytes &b) { for (auto x : b) if (!x) return true; return false; }

struct NavRun {
    const Plan &plan; const ExecCtx &ctx; Result &res;
    Trace tr; Sink sink; PSession ps;
    Node root; Cursor cur;
    std::string P;       // clause prefix = owning property
    Block xw_blk, xw_dest; binson_writer *xw = nullptr; Bytes xw_expect;      // long-lived writer (C11)
    NavRun(const Plan &p, const ExecCtx &c, Result &r) : plan(p), ctx(c), res(r), ps(tr, sink, r.cnt) {}

    void fail(const char *what, const std::string &d) { sink.fail(P + "." + what, d); }
    void trans(int opcode) {
        int topk = cur.st.empty() ? 2 : (cur.st.back().c->t == V_OBJ ? 0 : 1);
        int park = cur.st.size() < 2 ? 2 : (cur.st[cur.st.size() - 2].c->t == V_OBJ ? 0 : 1);
        int gpk = cur.st.size() < 3 ? 2 : (cur.st[cur.st.size() - 3].c->t == V_OBJ ? 0 : 1);
        res.transitions.push_back((uint32_t)(topk | park << 2 | gpk << 4 | cur.pos_class() << 6 | (opcode - M_ENTER) << 10));
    }
    Outcome real(int code, int64_t a = 0, const Bytes &b = Bytes(), int64_t c = 0) { Op o; o.code = code; o.a = a; o.b = b; o.c = c; return ps.call(o); }
    void no_error(const Outcome &o, const char *after) { if (o.err != 0) fail("error_raised", fmt("%s raised %s on a valid document", after, err_name(o.err))); }
    void check_depth() {
        Outcome o = real(P_DEPTH);
        if ((int)o.ival != cur.depth()) fail("depth", fmt("get_depth=%lld, reference cursor says %d", (long long)o.ival, cur.depth()));
    }

    void observe_current() {
        const Node *n = cur.current();
        if (!n) return;
        const Frame &f = cur.st.back();
        Outcome t = real(P_GET_TYPE);
        if (t.type != btype_of(n->t)) fail("observe.type", fmt("get_type=%d, document has %d at this position", t.type, btype_of(n->t)));
        if (f.c->t == V_OBJ) {
            Outcome nm = real(P_GET_NAME);
            if (!nm.ret || nm.span_off != (long)n->name_off || nm.span_len != n->name_len)
                fail("observe.name", fmt("get_name span=%ld+%zu, field name is at %zu+%zu", nm.span_off, nm.span_len, n->name_off, n->name_len));
        }
        Outcome i = real(P_GET_INT), b = real(P_GET_BOOL), d = real(P_GET_DOUBLE), s = real(P_GET_STRING), y = real(P_GET_BYTES);
        int64_t wi = n->t == V_INT ? n->i : 0;
        if (i.ival != wi) fail(n->t == V_INT ? "observe.value" : "observe.neutral", fmt("get_integer=%lld, expected %lld", (long long)i.ival, (long long)wi));
        int64_t wb = n->t == V_BOOL ? (n->b ? 1 : 0) : 0;
        if (b.ival != wb) fail(n->t == V_BOOL ? "observe.value" : "observe.neutral", fmt("get_boolean=%lld, expected %lld", (long long)b.ival, (long long)wb));
        uint64_t wd = n->t == V_DBL ? n->d : 0;
        if (d.dbits != wd) fail(n->t == V_DBL ? "observe.value" : "observe.neutral", fmt("get_double bits=%016llx, expected %016llx", (unsigned long long)d.dbits, (unsigned long long)wd));
        if (n->t == V_STR) { if (!s.ret || s.span_off != (long)n->pay_off || s.span_len != n->pay_len) fail("observe.value", fmt("get_string_bbuf span=%ld+%zu, expected %zu+%zu", s.span_off, s.span_len, n->pay_off, n->pay_len)); }
        else if (s.ret) fail("observe.neutral", "get_string_bbuf non-NULL on a non-string value");
        if (n->t == V_BYTES) { if (!y.ret || y.span_off != (long)n->pay_off || y.span_len != n->pay_len) fail("observe.value", fmt("get_bytes_bbuf span=%ld+%zu, expected %zu+%zu", y.span_off, y.span_len, n->pay_off, n->pay_len)); }
        else if (y.ret) fail("observe.neutral", "get_bytes_bbuf non-NULL on a non-bytes value");
        no_error(y, "getters");
    }

    void step(const Op &op) {
        if (!cur.enabled(op)) { bump(res.cnt, "nav.op_disabled"); return; }
        trans(op.code);
        bump(res.cnt, std::string("nav.op.") + OP_NAMES[op.code]);
        switch (op.code) {
            case M_ENTER: {
                const Node *target = !cur.entered ? &root : cur.current();
                Outcome o = real(target->t == V_OBJ ? P_ENTER_OBJ : P_ENTER_ARR);
                if (!o.ret) fail("enter.result", fmt("go_into_%s returned false on an un-entered container", target->t == V_OBJ ? "object" : "array"));
                no_error(o, "enter");
                if (!sink.failed() && o.used != target->begin_off() + 1) fail("enter.cursor", fmt("cursor at %zu after entering the container that begins at %zu", o.used, target->begin_off()));
                if (cur.entered) cur.st.back().pending = false;
                cur.entered = true;
                cur.st.push_back(Frame{target, 0, -1, false});
                check_depth();
                break;
            }
            case M_NEXT: {
                Frame &f = cur.st.back();
                if (f.pending) { cur.skipped_or_early++; bump(res.cnt, "nav.skip_container"); }
                bool want = f.next < f.c->kids.size();
                Outcome o = real(P_NEXT);
                if (o.ret != want) fail("next.result", fmt("next returned %d, reference cursor says %d (child %zu of %zu)", o.ret, want, f.next, f.c->kids.size()));
                no_error(o, "next");
                if (want) { f.pos = (int)f.next; f.next++; f.pending = f.c->kids[(size_t)f.pos].is_container(); }
                else { f.pos = -1; f.pending = false; bump(res.cnt, "nav.next_at_end"); }
                if (sink.failed()) break;
                check_depth();
                if (want) observe_current();
                break;
            }
            case M_LEAVE: {
                Frame f = cur.st.back();
                if (f.pending || f.next < f.c->kids.size()) { cur.skipped_or_early++; bump(res.cnt, "nav.leave_early"); }
                if (f.pending) bump(res.cnt, "probe.leave_while_positioned_on_container");
                Outcome o = real(f.c->t == V_OBJ ? P_LEAVE_OBJ : P_LEAVE_ARR);
                if (!o.ret) fail("leave.result", fmt("leave_%s returned false", f.c->t == V_OBJ ? "object" : "array"));
                no_error(o, "leave");
                if (!sink.failed() && o.used != f.c->end_off() + 1) fail("leave.cursor", fmt("cursor at %zu after leaving, container ends at %zu", o.used, f.c->end_off()));
                cur.st.pop_back();
                if (cur.st.empty()) { cur.done = true; bump(res.cnt, "nav.root_left"); }
                else { cur.st.back().pos = -1; cur.st.back().pending = false; }
                if (!sink.failed()) check_depth();
                break;
            }
            case M_RESTART: {
                // reset / verify / print / to_string(NULL) in the middle of a traversal: each must succeed on a valid document
                // and put the cursor back to the start; what follows is compared with the reference cursor from the top again
                if (!cur.st.empty()) bump(res.cnt, fmt("probe.restart_at_nesting_%zu", std::min<size_t>(cur.st.size(), 4)));
                Outcome o;
                switch (op.a % 4) {
                    case 0: o = real(P_RESET); if (!o.ret) fail("restart.reset", "binson_parser_reset returned false on a valid document"); break;
                    case 1: o = real(P_VERIFY); if (!o.ret) fail("restart.verify", fmt("binson_parser_verify rejected a valid document in the middle of a traversal (%s)", err_name(o.err))); break;
                    case 2: o = real(P_PRINT); if (!o.ret) fail("restart.print", fmt("binson_parser_print returned false on a valid document in the middle of a traversal (%s)", err_name(o.err))); break;
                    default: o = real(P_TO_STRING_NULL, 7); if (o.ret || o.size_out == 0) fail("restart.to_string", "to_string(NULL) did not report a size for a valid document in the middle of a traversal"); break;
                }
                no_error(o, "restart");
                cur.st.clear(); cur.entered = false; cur.done = false; cur.have_last = false; cur.wrong_type_end = false;
                if (!sink.failed()) check_depth();
                cur.skipped_or_early++;
                break;
            }
            case M_OBSERVE:
                check_depth();
                if (cur.entered && !cur.st.empty()) observe_current();
                break;
            case M_STREQ: {
                const Node *n = cur.current();
                Bytes q;
                bool isstr = n->t == V_STR;
                if (isstr) q = n->s; else q = Bytes{'a', 'b'};
                switch (op.a % 4) {
                    case 1: if (!q.empty()) q.back() ^= 1; else q.push_back('x'); break;
                    case 2: if (!q.empty()) q.pop_back(); else q.push_back('y'); break;
                    case 3: q.push_back('a'); break;
                    default: break;
                }
                for (auto &ch : q) if (!ch) ch = 1;          // argument is a C string
                bool want = isstr && q == n->s;
                Outcome o = real(P_STR_EQ, 0, q);
                if (o.ret != want) fail("observe.string_equals", fmt("string_equals returned %d, expected %d", o.ret, want));
                no_error(o, "string_equals");
                break;
            }
            case M_FIELD: case M_FIELD_ENS: {
                Frame &f = cur.st.back();
                Bytes name = resolve_name(op, cur);
                cur.last_query = name; cur.have_last = true;
                bool ens = op.code == M_FIELD_ENS;
                bool use_len = (op.c & 1) || has_nul(name);
                if (f.pending) { cur.skipped_or_early++; bump(res.cnt, "nav.lookup_skips_container"); }
                // reference: scan from the cursor
                size_t j = f.next; bool found = false;
                const std::vector<Node> &k = f.c->kids;
                while (j < k.size()) {
                    if (k[j].name == name) { found = true; break; }
                    if (k[j].name > name) break;
                    j++;
                }
                int want_type = 0; bool type_ok = true;
                if (ens) {
                    if (found) { want_type = btype_of(k[j].t); if (op.c & 2) { want_type = want_type == 6 ? 8 : 6; type_ok = false; } }
                    else want_type = 6;
                }
                Outcome o;
                int64_t alias = 0;
                if (!ens && use_len && (op.c & 4)) {        // pass the name by pointer into the document (any field of this object that carries these bytes)
                    for (auto &kid : k) if (kid.name == name) { alias = (int64_t)kid.name_off + 1; break; }
                }
                if (!ens) o = use_len ? real(P_FIELD_LEN, alias, name) : real(P_FIELD, 0, name);
                else o = use_len ? real(P_FIELD_ENS_LEN, 0, name, want_type) : real(P_FIELD_ENS, 0, name, want_type);
                bool want = found && type_ok;
                bump(res.cnt, found ? "nav.lookup_found" : (j < k.size() ? "probe.lookup_overshoot_rewind" : "nav.lookup_ran_off_end"));
                if (o.ret != want) fail("lookup.result", fmt("lookup of x%s returned %d, reference says %d (scan from field %zu of %zu)", to_hex(name).c_str(), o.ret, want, f.next, k.size()));
                if (found && !type_ok) {
                    if (o.err != BINSON_ERROR_WRONG_TYPE) fail("ensure.wrong_type", fmt("field_ensure with a mismatching type left error %s", err_name(o.err)));
                    cur.done = true; cur.wrong_type_end = true; bump(res.cnt, "nav.ensure_wrong_type");
                    break;
                }
                no_error(o, "lookup");
                if (found) { f.pos = (int)j; f.next = j + 1; f.pending = k[j].is_container(); }
                else {
                    f.pos = -1; f.pending = false; f.next = j;
                    size_t want_used = j < k.size() ? k[j].name_tok : f.c->end_off();
                    if (!sink.failed() && o.used != want_used) fail("lookup.cursor", fmt("after a failed lookup the cursor is at %zu, expected %zu (first field with a greater name / END)", o.used, want_used));
                }
                if (sink.failed()) break;
                check_depth();
                if (found) observe_current();
                break;
            }
            case M_RAW: case M_TO_WRITER: {
                Frame &f = cur.st.back();
                const Node *n = cur.current();
                bool cont = f.pending;
                if (op.code == M_RAW) {
                    Outcome before = real(P_DEPTH);
                    size_t used0 = before.used;
                    Outcome o = real(P_GET_RAW);
                    if (cont) {
                        if (!o.ret) fail("raw.result", "get_raw returned false on an un-entered container");
                        else if (o.span_off != (long)n->tok || o.span_len != n->tok_len) fail("raw.span", fmt("get_raw span=%ld+%zu, container is %zu+%zu", o.span_off, o.span_len, n->tok, n->tok_len));
                        no_error(o, "get_raw");
                        if (!sink.failed() && o.used != n->end_off() + 1) fail("raw.cursor", fmt("cursor at %zu after get_raw, container ends at %zu", o.used, n->end_off()));
                        if (!sink.failed()) standalone(n);
                    } else {
                        if (o.ret) fail("raw.scalar_true", "get_raw returned true on a scalar value");
                        if (o.err != 0 || o.used != used0) fail("raw.scalar_changed", fmt("get_raw on a scalar changed the parser (err=%s cursor %zu->%zu)", err_name(o.err), used0, o.used));
                    }
                } else {
                    if (xw && (op.a % 8) < 3) {
                        // append to the long-lived writer (always large enough)
                        Outcome before = real(P_DEPTH);
                        size_t used0 = before.used;
                        Outcome o = real(P_TO_WRITER, 0, Bytes(), 1);
                        if (cont) {
                            xw_expect.insert(xw_expect.end(), plan.doc.begin() + (long)n->tok, plan.doc.begin() + (long)(n->tok + n->tok_len));
                            if (!o.ret) fail("towriter.result", fmt("parser_to_writer into a shared writer with room returned false (%s)", o.text.c_str()));
                            else if (o.size_out != xw_expect.size() || memcmp(xw_dest.p, xw_expect.data(), xw_expect.size()) != 0) fail("towriter.bytes", fmt("shared writer holds %zu bytes, expected the %zu bytes of the containers appended so far", o.size_out, xw_expect.size()));
                            no_error(o, "to_writer");
                            if (!sink.failed() && o.used != n->end_off() + 1) fail("towriter.cursor", fmt("cursor at %zu after parser_to_writer, container ends at %zu", o.used, n->end_off()));
                            f.pending = false; f.pos = -1; bump(res.cnt, "nav.raw_container"); cur.skipped_or_early++;
                        } else {
                            if (o.ret) fail("towriter.scalar_true", "parser_to_writer returned true on a scalar value");
                            if (o.err != 0 || o.used != used0 || o.size_out != xw_expect.size() || o.text != "werr=NONE shared-writer") fail("towriter.scalar_changed", fmt("parser_to_writer on a scalar changed something (err=%s cursor %zu->%zu counter=%zu %s)", err_name(o.err), used0, o.used, o.size_out, o.text.c_str()));
                            bump(res.cnt, "nav.raw_scalar");
                        }
                        if (!sink.failed()) { check_depth(); if (!cont) observe_current(); }
                        break;
                    }
                    size_t capn = 8; bool enough = true;
                    if (cont) {
                        switch (op.a % 8) {      // the writer may be (nearly) full: C04's contract then applies to the appended piece
                            case 3: capn = 0; break; case 4: capn = 1; break; case 5: capn = n->tok_len - 1; break;
                            case 6: capn = n->tok_len >= 2 ? n->tok_len - 2 : 0; break; case 7: capn = n->tok_len / 2; break;
                            default: capn = n->tok_len + (size_t)(op.a % 8); break;
                        }
                        enough = capn >= n->tok_len;
                    }
                    Outcome before = real(P_DEPTH);
                    size_t used0 = before.used;
                    Outcome o = real(P_TO_WRITER, (int64_t)capn, Bytes(), plan.P("arena") ? 2 : 0);
                    if (cont && enough) {
                        std::string want = "werr=NONE wbytes=" + to_hex(plan.doc.data() + n->tok, n->tok_len);
                        if (!o.ret) fail("towriter.result", "parser_to_writer returned false on an un-entered container");
                        else if (o.size_out != n->tok_len || o.text != want) fail("towriter.bytes", fmt("parser_to_writer appended %zu bytes (%s), container has %zu", o.size_out, o.text.c_str(), n->tok_len));
                        no_error(o, "to_writer");
                        if (!sink.failed() && o.used != n->end_off() + 1) fail("towriter.cursor", fmt("cursor at %zu after parser_to_writer, container ends at %zu", o.used, n->end_off()));
                    } else if (cont) {
                        // writer too small for the container: the piece does not fit (RANGE, counter keeps counting, nothing stored);
                        // the parser has extracted the container all the same and continues behind it
                        bump(res.cnt, "probe.towriter_into_full_writer");
                        std::string want = "werr=RANGE wbytes="; for (size_t q = 0; q < capn; q++) want += "a5";
                        if (o.ret) fail("towriter.full_true", fmt("parser_to_writer returned true although only %zu of %zu bytes fit", capn, n->tok_len));
                        if (o.size_out != n->tok_len || o.text != want) fail("towriter.full_writer", fmt("writer with %zu free bytes, container of %zu bytes: counter=%zu %s (expected counter %zu, RANGE, nothing stored)", capn, n->tok_len, o.size_out, o.text.c_str(), n->tok_len));
                        no_error(o, "to_writer");
                        if (!sink.failed() && o.used != n->end_off() + 1) fail("towriter.cursor", fmt("cursor at %zu after parser_to_writer into a full writer, container ends at %zu", o.used, n->end_off()));
                    } else {
                        if (o.ret) fail("towriter.scalar_true", "parser_to_writer returned true on a scalar value");
                        if (o.err != 0 || o.used != used0 || o.size_out != 0 || o.text != "werr=NONE wbytes=") fail("towriter.scalar_changed", fmt("parser_to_writer on a scalar changed something (err=%s cursor %zu->%zu counter=%zu %s)", err_name(o.err), used0, o.used, o.size_out, o.text.c_str()));
                    }
                }
                if (cont) { f.pending = false; f.pos = -1; bump(res.cnt, "nav.raw_container"); cur.skipped_or_early++; }
                else bump(res.cnt, "nav.raw_scalar");
                if (!sink.failed()) { check_depth(); if (!cont) observe_current(); }
                break;
            }
        }
    }

    // the extracted span must be a valid standalone document of its kind (real verify on a fresh parser)
    void standalone(const Node *n) {
        Trace t2; Sink s2; s2.own = "~none~";
        std::map<std::string, uint64_t> c2;
        PSession q(t2, s2, c2);
        Bytes span(plan.doc.begin() + (long)n->tok, plan.doc.begin() + (long)(n->tok + n->tok_len));
        q.setup(std::max(1, need_depth(*n, n->t == V_ARR)), 0, span, n->t == V_ARR);
        Op i; i.code = n->t == V_ARR ? P_INIT_ARR : P_INIT_OBJ; i.a = -1;
        Outcome a = q.call(i);
        Op v; v.code = P_VERIFY;
        Outcome b = q.call(v);
        if (!a.ret || !b.ret) fail("raw.standalone", fmt("the span returned by get_raw is not accepted as a standalone document (init=%d verify=%d err=%s)", a.ret, b.ret, err_name(b.err)));
        res.steps += q.steps;
    }

    // The documented way to declare a parser: the BINSON_PARSER_DEF* macros of the public header (automatic and static storage,
    // default and explicit depth). A valid document that fits the declared depth must verify on each of them.
    void macro_declared_parsers() {
        int need = std::max(1, need_depth(root, plan.root != 0));
        Block b = block_alloc(plan.doc.size(), 0);
        if (!plan.doc.empty()) memcpy(b.p, plan.doc.data(), plan.doc.size());
        auto use = [&](binson_parser *q, int depth, const char *how) {
            if (need > depth) return;
            bool i = false, v = false;
            g_in_library++;
            i = plan.root ? binson_parser_init_array(q, b.p, b.n) : binson_parser_init_object(q, b.p, b.n);
            if (i) v = binson_parser_verify(q);
            g_in_library--;
            bump(res.cnt, std::string("probe.macro_declared_parser.") + how);
            if (!i || !v) fail("macro_parser", fmt("a parser declared with %s rejects a valid document that needs %d levels (init=%d verify=%d)", how, need, i, v));
        };
        { BINSON_PARSER_DEF(q1); use(&q1, 10, "BINSON_PARSER_DEF"); }
        { BINSON_PARSER_DEF_DEPTH(q2, 40); use(&q2, 40, "BINSON_PARSER_DEF_DEPTH(40)"); }
        // the static variants declare ONE parser per expansion site: an application must not use such a parser from two threads,
        // so they are left out when this history is one of several tasks under the interleaving scheduler
        if (!g_yield_hook) {
            { BINSON_PARSER_DEF_STATIC(q3); use(&q3, 10, "BINSON_PARSER_DEF_STATIC"); }
            { BINSON_PARSER_DEF_DEPTH_STATIC(q4, 24); use(&q4, 24, "BINSON_PARSER_DEF_DEPTH_STATIC(24)"); }
        }
        block_free(b);
    }

    void run() {
        P = plan.prop.empty() ? "C06" : plan.prop;
        sink.own = ctx.prop.empty() ? "" : ctx.prop; sink.cnt = &res.cnt;
        tr.verbose = ctx.verbose;
        if (!decode(plan.doc, plan.root != 0, root)) { res.invalid_plan = true; res.detail = "document is not a valid Binson document"; return; }
        if (plan.max_depth < need_depth(root, plan.root != 0)) { res.invalid_plan = true; res.detail = "max_depth below the document's nesting"; return; }
        cur.root = &root; cur.array_root = plan.root != 0; cur.doc_len = plan.doc.size();
        ps.lead = (int)plan.P("lead");
        if (plan.P("arena")) ps.tail_room = plan.doc.size() + 16;      // message and extraction buffer packed back to back in one arena of the caller
        ps.setup(plan.max_depth, plan.prefill, plan.doc, plan.root != 0);
        ps.guard_lookups = false;       // the model only issues lookups inside object frames
        ps.use_cb = !plan.P("nocb");
        if (plan.P("extw")) {
            // "always large enough": every to_writer of the history may append (at most) the whole document - restarts allow the
            // same container to be extracted again and again. (A fixed 8 x |doc| was a false alarm of the thorough tier: nine
            // extractions of a 1.9 KB container after nine restarts legitimately overflowed it.)
            size_t n_tw = 0; for (auto &o : plan.ops) if (o.code == M_TO_WRITER) n_tw++;
            size_t capn = plan.doc.size() * (n_tw + 1) + 256;
            xw_blk = block_alloc(sizeof(binson_writer), 0); xw_dest = block_alloc(capn, 0); memset(xw_dest.p, 0xA5, capn);
            xw = (binson_writer *)xw_blk.p; binson_writer_init(xw, xw_dest.p, capn);
            ps.ext_writer = xw;
            if (plan.P("extw") == 2) {
                // another parser, over a damaged message, fails inside to_writer on the same writer first: nothing was appended,
                // everything written so far fits, so the writer must still be usable for the valid message afterwards
                static const uint8_t dmg[] = {0x40, 0x14, 0x01, 0x61, 0x40, 0x14, 0x01, 0x62, 0x14, 0x7f, 0x41, 0x41};
                Trace t2; Sink s2; s2.own = "~"; std::map<std::string, uint64_t> c2;
                PSession q(t2, s2, c2);
                q.setup(4, 0, Bytes(dmg, dmg + sizeof dmg), false);
                q.ext_writer = xw;
                Op a; a.code = P_INIT_OBJ; a.a = -1; q.call(a);
                a = Op(); a.code = P_ENTER_OBJ; q.call(a);
                a = Op(); a.code = P_NEXT; q.call(a);
                a = Op(); a.code = P_TO_WRITER; a.c = 1; Outcome f = q.call(a);
                bump(res.cnt, "probe.foreign_to_writer_failure_on_shared_writer");
                uint32_t we = 0; memcpy(&we, &xw->error_flags, 4);
                if (f.ret || binson_writer_get_counter(xw) != 0) fail("towriter.foreign_failure", "parser_to_writer of a damaged container appended something / returned true");
                else if (we != 0) fail("towriter.writer_poisoned", fmt("a parser_to_writer that failed on the parser side and appended nothing left the writer in error %s although everything written so far fits", err_name(we)));
            }
        }
        Op init; init.code = plan.root ? P_INIT_ARR : P_INIT_OBJ; init.a = -1;
        Outcome o = ps.call(init);
        if (!o.ret) fail("init", fmt("init rejected a valid document (%s)", err_name(o.err)));
        for (size_t i = 0; i < plan.ops.size() && !sink.failed() && !ps.dead; i++) step(plan.ops[i]);
        ps.end_checks();
        if (!sink.failed() && (plan.seed & 7) == 0) macro_declared_parsers();
        block_free(xw_blk); block_free(xw_dest);
        res.clause = sink.clause; res.detail = sink.detail;
        res.trace_hash = tr.h; res.steps += ps.steps; res.calls = ps.calls;
        res.nontrivial = cur.skipped_or_early > 0;
        res.cnt["c16.max_slack"] = std::max(res.cnt["c16.max_slack"], ps.max_slack);
        if (ctx.verbose) res.log = tr.log;
    }
};

Result nav_execute(const Plan &p, const ExecCtx &c) {
    Result r;
    NavRun run(p, c, r);
    run.run();
    return r;
}

// ---------------------------------------------------------------- generation (model-driven: pick among enabled ops)
struct GenCursor {       // lightweight replica of the model transitions, without the real parser
    Cursor cur; const Node *root;
    void apply(const Op &op) {
        switch (op.code) {
            case M_ENTER: {
                const Node *t = !cur.entered ? root : cur.current();
                if (cur.entered) cur.st.back().pending = false;
                cur.entered = true; cur.st.push_back(Frame{t, 0, -1, false}); break;
            }
            case M_NEXT: { Frame &f = cur.st.back(); if (f.next < f.c->kids.size()) { f.pos = (int)f.next; f.next++; f.pending = f.c->kids[(size_t)f.pos].is_container(); } else { f.pos = -1; f.pending = false; } break; }
            case M_LEAVE: cur.st.pop_back(); if (cur.st.empty()) cur.done = true; else { cur.st.back().pos = -1; cur.st.back().pending = false; } break;
            case M_FIELD: case M_FIELD_ENS: {
                Frame &f = cur.st.back();
                Bytes name = resolve_name(op, cur); cur.last_query = name; cur.have_last = true;
                size_t j = f.next; bool found = false;
                while (j < f.c->kids.size()) { if (f.c->kids[j].name == name) { found = true; break; } if (f.c->kids[j].name > name) break; j++; }
                if (found && op.code == M_FIELD_ENS && (op.c & 2)) { cur.done = true; cur.wrong_type_end = true; break; }
                if (found) { f.pos = (int)j; f.next = j + 1; f.pending = f.c->kids[j].is_container(); } else { f.pos = -1; f.pending = false; f.next = j; }
                break;
            }
            case M_RAW: case M_TO_WRITER: { Frame &f = cur.st.back(); if (f.pending) { f.pending = false; f.pos = -1; } break; }
            case M_RESTART: cur.st.clear(); cur.entered = false; cur.done = false; cur.have_last = false; cur.wrong_type_end = false; break;
            default: break;
        }
    }
};

static void deep_shape(Rng &r, Node &root, bool array_root, int od, int ad) {
    // a spine of nested containers with a few leaves: exercises the depth bookkeeping
    Node *cur = &root;
    int o = 0, a = 0;
    while (o < od || a < ad) {
        bool obj = (o < od) && (a >= ad || r.chance(1, 2));
        Node c; c.t = obj ? V_OBJ : V_ARR;
        if (cur->t == V_OBJ) c.name = Bytes{(uint8_t)('m')};
        if (obj) o++; else a++;
        if (r.chance(1, 3)) { Node l; l.t = V_INT; l.i = interesting_int(r); if (cur->t == V_OBJ) l.name = Bytes{'a'}; cur->kids.push_back(l); }
        cur->kids.push_back(c);
        size_t idx = cur->kids.size() - 1;
        if (r.chance(1, 3)) { Node l; l.t = V_BOOL; l.b = true; if (cur->t == V_OBJ) l.name = Bytes{'z'}; cur->kids.push_back(l); }
        cur = &cur->kids[idx];
    }
    (void)array_root;
}

Plan nav_generate(uint64_t base, const std::string &prop, uint64_t index, int tier) {
    Plan p; p.engine = "nav"; p.prop = prop; p.index = index;
    p.seed = run_seed(base, "nav", prop, index);
    Rng r(p.seed);
    Rng rd = r.fork("document"), ro = r.fork("operations");
    p.root = rd.chance(35, 100) ? 1 : 0;
    GenKnobs k;
    unsigned cls = (unsigned)rd.below(100);
    k.max_nodes = cls < 40 ? 1 + (int)rd.below(6) : cls < 85 ? 4 + (int)rd.below(16) : 15 + (int)rd.below(tier ? 60 : 26);
    k.alphabet = (int)rd.below(3);
    k.long_strings = rd.chance(1, 12) ? (rd.chance(1, 6) ? (rd.chance(1, 4) ? 3 : 2) : 1) : 0;
    k.p_container = 20 + (int)rd.below(45);
    k.p_empty = 10 + (int)rd.below(40);
    k.max_obj_depth = 1 + (int)rd.below(6);
    k.max_arr_depth = 1 + (int)rd.below(5);
    if (prop == "C07" || rd.chance(1, 5)) k.max_kids = 3 + (int)rd.below(10);
    static const int WIDE[] = {17, 33, 65, 129, 255, 256, 257, 300};
    if (rd.chance(1, tier ? 25 : 60)) k.wide = WIDE[rd.below(8)];
    Rng rl = r.fork("layout");
    if (rl.chance(1, prop == "C07" ? 2 : 4)) pick_name_family(rl, k);
    if (rl.chance(1, 2)) p.par["lead"] = 1 + (int64_t)rl.below(15);     // the message does not start on an allocator boundary
    if (prop == "C11" && rl.chance(1, 5)) p.par["arena"] = 1;
    Node root;
    int deep_levels = 0;
    if (rd.chance(3, 100)) {
        root.t = p.root ? V_ARR : V_OBJ;
        int od = 1 + (int)rd.below(tier ? 250 : 30), ad = (int)rd.below(tier ? 200 : 30);
        if (rd.chance(1, 3)) { static const int T[] = {7, 8, 9, 15, 16, 17, 31, 32, 33, 63, 64, 65, 127, 128, 129}; if (rd.chance(1, 2)) od = T[rd.below(15)]; else ad = T[rd.below(15)]; }
        if (rd.chance(1, 4)) {
            // arrays nested directly in arrays up to the format's limit of 255 per object level, an object among the innermost elements
            static const int N[] = {2, 100, 127, 128, 129, 253, 254, 255};
            int n = N[rd.below(8)];
            Node *cur = &root; int have = p.root ? 1 : 0;
            if (!p.root) { Node c; c.t = V_ARR; c.name = Bytes{'m'}; root.kids.push_back(c); cur = &root.kids.back(); have = 1; }
            while (have < n) { Node c; c.t = V_ARR; cur->kids.push_back(c); cur = &cur->kids.back(); have++; }
            { Node o; o.t = V_OBJ; if (rd.chance(1, 2)) { Node v; v.t = V_INT; v.i = 7; v.name = Bytes{'k'}; o.kids.push_back(v); } cur->kids.push_back(o); }
            { Node s; s.t = V_INT; s.i = n; cur->kids.push_back(s); }
            if (rd.chance(1, 2)) { Node o2; o2.t = V_OBJ; cur->kids.push_back(o2); }
            p.faults.push_back(fmt("shape:array_chain=%d", n));
            deep_levels = n + 1;
        } else {
            deep_shape(rd, root, p.root != 0, od, ad);
            deep_levels = od + ad;
        }
        p.faults.push_back("shape:deep");
    } else root = gen_tree(rd, k, p.root != 0);
    encode(root, p.doc);
    int need = std::max(1, need_depth(root, p.root != 0));
    p.max_depth = std::min(255, need + (int)rd.below(3));
    if (rd.chance(1, 12)) p.max_depth = std::min(255, need + (int)rd.below(256 - (uint64_t)std::min(255, need)));      // an application with far more levels than the document needs
    if (need > 255) { // cannot be traversed; fall back to a tiny document
        root = Node(); root.t = p.root ? V_ARR : V_OBJ; encode(root, p.doc); p.max_depth = 1;
    }
    p.prefill = rd.chance(3, 4) ? (rd.next() | 1) : 0;
    p.note = tree_text(root);

    // operation mix per property (swarm: a different mix per run)
    int w_enter = 20 + (int)ro.below(30), w_next = 20 + (int)ro.below(40), w_leave = 3 + (int)ro.below(20), w_obs = 5 + (int)ro.below(10), w_streq = 3;
    int w_field = 0, w_ens = 0, w_raw = 0, w_tw = 0;
    if (prop == "C07") { w_field = 30 + (int)ro.below(50); w_ens = 8 + (int)ro.below(10); w_raw = (int)ro.below(6); w_tw = (int)ro.below(4); }
    else if (prop == "C11") { w_raw = 15 + (int)ro.below(30); w_tw = 10 + (int)ro.below(25); w_field = (int)ro.below(15); }
    else if (prop == "C06") { w_raw = (int)ro.below(12); w_field = (int)ro.below(8); }     // a lookup may also be what returns the container that is entered next
    else { w_field = 15; w_ens = 4; w_raw = 8; w_tw = 6; }   // mixed corpus (C16 / C18 / C17 reuse this engine)
    if (prop != "C16" && ro.chance(1, 5)) p.par["nocb"] = 1;      // an application without a token callback
    if (prop == "C16" && r.fork("nocb").chance(1, 4)) p.par["nocb"] = 1;   // termination without a callback to count steps: decided by the CPU-time watchdog alone
    if (prop == "C11" && ro.chance(1, 2)) p.par["extw"] = 1 + (int64_t)ro.below(2);
    int nops = 1 + (int)ro.below(tier ? 120 : 80);
    int w_restart_scale = 1;
    if (k.wide) { nops = k.wide + (int)ro.below(200); w_next += 200; }     // long enough to walk across the wide container

    GenCursor g; g.root = &root; g.cur.root = &root; g.cur.array_root = p.root != 0; g.cur.doc_len = p.doc.size();
    std::vector<Node> dummy;
    if (deep_levels > 8 && ro.chance(2, 3)) {
        // a deep document: first walk down (next until a container is reached, enter it) to a chosen level - often the very
        // bottom - so that the random part of the history happens THERE, at object / array depths of 100 and more
        int target = ro.chance(1, 2) ? deep_levels + 1 : 1 + (int)ro.below((uint64_t)deep_levels + 1);
        int guard = 0;
        while (guard++ < 4 * deep_levels + 16 && (int)g.cur.st.size() < target) {
            Op op;
            if (!g.cur.entered || (!g.cur.st.empty() && g.cur.st.back().pending)) op.code = M_ENTER;
            else { const Frame &f = g.cur.st.back(); if (f.next >= f.c->kids.size()) break; op.code = M_NEXT; }
            p.ops.push_back(op); g.apply(op);
        }
        p.faults.push_back(fmt("shape:descent=%zu", g.cur.st.size()));
    }
    int w_restart = ro.chance(1, 2) ? 3 + (int)ro.below(12) : 0;       // half of the histories restart the parser now and then
    (void)w_restart_scale;
    for (int i = 0; i < nops; i++) {
        struct Cand { int code; int w; } cands[] = {{M_ENTER, w_enter}, {M_NEXT, w_next}, {M_LEAVE, w_leave}, {M_OBSERVE, w_obs}, {M_STREQ, w_streq},
                                                    {M_FIELD, w_field}, {M_FIELD_ENS, w_ens}, {M_RAW, w_raw}, {M_TO_WRITER, w_tw}, {M_RESTART, w_restart}};
        int total = 0;
        Op probe;
        int wts[10];
        bool at_end = g.cur.entered && !g.cur.st.empty() && !g.cur.st.back().pending && g.cur.st.back().next >= g.cur.st.back().c->kids.size();
        for (int c = 0; c < 10; c++) {
            probe.code = cands[c].code; wts[c] = g.cur.enabled(probe) ? cands[c].w : 0;
            if (at_end) {   // most of a history should be spent where something can still happen
                if (probe.code == M_FIELD || probe.code == M_FIELD_ENS) wts[c] = (wts[c] + 9) / 10;
                else if (probe.code == M_NEXT) wts[c] = (wts[c] + 3) / 4;
                else if (probe.code == M_LEAVE) wts[c] *= 4;
            }
            total += wts[c];
        }
        if (total == 0) break;
        int pick = (int)ro.below((uint64_t)total), c = 0;
        while (pick >= wts[c]) { pick -= wts[c]; c++; }
        Op op; op.code = cands[c].code;
        if (op.code == M_FIELD || op.code == M_FIELD_ENS) {
            static const int kinds[] = {0, 0, 0, 0, 1, 2, 2, 3, 4, 5, 6, 7, 8};
            op.a = kinds[ro.below(13)];
            op.c = (int64_t)(ro.below(64) * 8) | (ro.chance(1, 2) ? 1 : 0) | (op.code == M_FIELD_ENS && ro.chance(1, 5) ? 2 : 0) | (ro.chance(1, 3) ? 4 : 0);
        } else if (op.code == M_STREQ) op.a = (int64_t)ro.below(4);
        else if (op.code == M_TO_WRITER) op.a = (int64_t)ro.below(8);
        else if (op.code == M_RESTART) op.a = (int64_t)ro.below(4);
        p.ops.push_back(op);
        g.apply(op);
    }
    return p;
}

// ---------------------------------------------------------------- shrinking of the document (structural)
static void collect_paths(const Node &n, std::vector<std::vector<size_t>> &paths, std::vector<size_t> &cur) {
    for (size_t i = 0; i < n.kids.size(); i++) { cur.push_back(i); paths.push_back(cur); collect_paths(n.kids[i], paths, cur); cur.pop_back(); }
}
static Node *at_path(Node &root, const std::vector<size_t> &path, Node **parent) {
    Node *n = &root; Node *par = nullptr;
    for (size_t i : path) { par = n; n = &n->kids[i]; }
    if (parent) *parent = par;
    return n;
}
static void fix_names(Node &n) {
    if (n.t == V_OBJ) {
        std::sort(n.kids.begin(), n.kids.end(), [](const Node &a, const Node &b) { return a.name < b.name; });
    }
    for (auto &k : n.kids) fix_names(k);
}
static bool names_unique(const Node &n) {
    if (n.t == V_OBJ) for (size_t i = 1; i < n.kids.size(); i++) if (n.kids[i - 1].name == n.kids[i].name) return false;
    for (auto &k : n.kids) if (!names_unique(k)) return false;
    return true;
}

void nav_shrink(const Plan &p, std::vector<Plan> &out) {
    Node root;
    if (!decode(p.doc, p.root != 0, root)) return;
    std::vector<std::vector<size_t>> paths; std::vector<size_t> cur;
    collect_paths(root, paths, cur);
    auto emit = [&](Node &t) {
        fix_names(t);
        if (!names_unique(t)) return;
        Plan q = p; encode(t, q.doc);
        if (q.doc == p.doc) return;
        int need = std::max(1, need_depth(t, p.root != 0));
        if (q.max_depth < need) q.max_depth = need;
        q.note = tree_text(t);
        out.push_back(q);
    };
    for (auto &path : paths) {
        if (out.size() > 400) break;
        { Node t = root; Node *par; at_path(t, path, &par); par->kids.erase(par->kids.begin() + (long)path.back()); emit(t); }   // drop the child
        { Node t = root; Node *n = at_path(t, path, nullptr);
          if (n->is_container()) { Bytes nm = n->name; *n = Node(); n->t = V_BOOL; n->b = false; n->name = nm; emit(t); }       // container -> scalar
          else if (n->t == V_INT && n->i != 0) { n->i = 0; emit(t); }
          else if (n->t == V_DBL && n->d != 0) { n->d = 0; emit(t); }
          else if ((n->t == V_STR || n->t == V_BYTES) && !n->s.empty()) { n->s.clear(); emit(t); }
          else if (n->t != V_BOOL) { Bytes nm = n->name; *n = Node(); n->t = V_BOOL; n->name = nm; emit(t); } }
        { Node t = root; Node *n = at_path(t, path, nullptr); if (n->name.size() > 1) { n->name.resize(1); emit(t); } }
        { Node t = root; Node *n = at_path(t, path, nullptr); if (n->name.size() == 1 && n->name[0] != 'a') { n->name[0] = 'a'; emit(t); } }
    }
    if (p.max_depth > 1) { Plan q = p; q.max_depth = std::max(1, need_depth(root, p.root != 0)); if (q.max_depth != p.max_depth) out.push_back(q); }
    if (p.prefill) { Plan q = p; q.prefill = 0; out.push_back(q); }
}

bool nav_owned(const Plan &p, const std::string &clause) {
    auto has = [&](std::initializer_list<int> codes) { for (auto &o : p.ops) for (int c : codes) if (o.code == c) return true; return false; };
    auto in = [&](const char *s) { return clause.find(s) != std::string::npos; };
    // a clause raised BY a lookup / raw operation belongs to that property whatever else is broken; a navigation clause met in
    // such a history belongs to it only if the minimised history still needs one of its operations
    if (p.prop == "C07") return in(".lookup.") || in(".ensure.") || has({M_FIELD, M_FIELD_ENS});
    if (p.prop == "C11") return in(".raw.") || in(".towriter.") || has({M_RAW, M_TO_WRITER});
    return true;
}

} // namespace

extern const Engine ENGINE_NAV = {"nav", nav_generate, nav_execute, nav_shrink, nav_owned};
