// runner.hpp - batches of seeded runs on forked workers, crash capture, confirmation, minimisation, evidence
#pragma once
#include "core.hpp"

struct Batch { std::string engine; uint64_t runs; };

struct CheckSpec {
    std::string prop;
    std::string level;                  // exploration | fault_enumeration
    std::vector<Batch> quick, thorough;
    std::string rule;                   // how cases are generated / what counts as non-trivial
    std::vector<std::string> assumptions;
    std::vector<std::string> real_components, simulated_components;
};

struct Agg {
    uint64_t evaluations = 0, steps = 0, calls = 0, invalid = 0;
    std::map<std::string, uint64_t> cnt;
    std::set<uint64_t> nontrivial;
    std::set<uint32_t> transitions;
    std::map<std::string, uint64_t> per_engine;
    std::string sample_small, sample_large, sample_fault;
    size_t small_sz = (size_t)-1, large_sz = 0;
    struct Fail { uint64_t batch, index; std::string clause, detail; };
    std::vector<Fail> fails;
    void add(const Plan &p, const Result &r);
    void merge(const Agg &o);
    bool save(const std::string &path) const;
    bool load(const std::string &path);
};

struct ChildRes {
    std::string clause, detail;
    uint64_t hash = 0;
    bool crashed = false, hung = false, invalid = false;
    std::string crash_kind;             // asan_write | asan_read | ubsan | sanitizer | signalN | watchdog
    std::string stderr_text;
    std::vector<std::string> log;
};
// executes the plan in a forked child (fresh address space state for the library, crash-safe)
ChildRes run_in_child(const Plan &p, const std::string &prop, bool verbose);
// clause under which a crash/hang of this plan is reported, and the property owning it
std::string crash_clause(const Plan &p, const ChildRes &c);

Plan minimise(const Plan &p, const std::string &prop, const std::string &clause, uint64_t *runs_used);

struct RunOptions {
    uint64_t seed = 1; int tier = 0; int jobs = 16;
    std::string evidence_path, known_path, replay_dir, scratch_dir;
    uint64_t runs_override = 0;         // testing aid
    double scale = 1.0;
};
int run_check(const CheckSpec &spec, const RunOptions &opt);
int replay_file(const std::string &path);
int digest_cmd(const std::vector<Batch> &batches, const std::string &prop, uint64_t seed, int tier, int jobs);

#include <cstdio>
extern FILE *g_out;     // the real standard output (stdout itself is the sink for text printed by the library)
std::string json_escape(const std::string &s);
void install_watchdog(int seconds);
void arm_watchdog(int seconds);
